----------------------------- MODULE GenerateMC -----------------------------
(***************************************************************************)
(* Model checking of the generation machine for one instance: every        *)
(* sequence of random choices (every option of non-zero probability at     *)
(* every decision) and every target of a finite set per stochastic object. *)
(***************************************************************************)
EXTENDS Generate, Json

CONSTANT Targets      \* Targets[e] : set of target masses (mDa) for element e (a stochastic object)

VARIABLE st

Init == st = Settle(Init0)

AnyChoice == \E k \in 1..Len(st.cand) : Positive(st.law[k]) /\ st' = Apply(st, k)   \* every option of non-zero probability
(* one action per kind of decision (so that TLC's coverage reports each) *)
StartEnd    == st.pc = "startEnd"    /\ AnyChoice
HandOver    == st.pc = "handOver"    /\ AnyChoice
PickOpen    == st.pc = "pickOpen"    /\ AnyChoice
PickPartner == st.pc = "pickPartner" /\ AnyChoice
PickListed  == st.pc = "pickListed"  /\ AnyChoice
Reserve     == st.pc = "reserve"     /\ AnyChoice
CapOpen     == st.pc = "capOpen"     /\ AnyChoice
CapEnd      == st.pc = "capEnd"      /\ AnyChoice
Draw        == st.pc = "draw" /\ \E t \in Targets[st.ei] : st' = ApplyDraw(st, t)

Next == StartEnd \/ HandOver \/ PickOpen \/ PickPartner \/ PickListed \/ Reserve \/ CapOpen \/ CapEnd \/ Draw
Spec == Init /\ [][Next]_st /\ WF_st(Next)

(* ---- invariants ---- *)
ITree        == TreeInv(st) /\ Connected(st) /\ MassInv(st)          \* C05
IBonds       == BondsCompatible(st) /\ UsedOnce(st)                  \* C04
ILaw         == LawNormalised(st)                                    \* C08
IOrder       == ElementOrder(st) /\ NeighbourBonds(st) /\ TerminalsRespected(st) /\ EndGroupsAreLeaves(st)   \* C06
IStop        == StopRule(st) /\ GrowOnlyBelowTarget(st)              \* C07
WellPosed    == st.pc # "error"                                      \* C06 (closability analysis)
IClosed      == Closed(st)                                           \* C06

(* C04 as an action property: a step adds at most one bond to the growing molecule, between an open  *)
(* descriptor and a descriptor of the new residue, compatible, with their order; or it commits a     *)
(* finalised copy.                                                                                   *)
AttachSound ==
   [][ LET b == st.main  c == st'.main IN
       (Len(c.bonds) = Len(b.bonds) + 1 /\ st.pc \in {"handOver", "pickPartner", "pickListed"} /\ st'.pc # "error") =>
          LET nb == c.bonds[Len(c.bonds)] IN
          /\ \E k \in 1..Len(b.open) : b.open[k].inst = nb.ai /\ b.open[k].d = nb.ad       \* was still unused
          /\ nb.bi = Len(c.res)                                                            \* joins the new residue
          /\ Compatible(Tok[c.res[nb.ai]].descs[nb.ad], Tok[c.res[nb.bi]].descs[nb.bd])
          /\ nb.ord = Tok[c.res[nb.ai]].descs[nb.ad].ord ]_st

(* C10/C18 at the model level: the successor is a function of (state, choice) - Apply/ApplyDraw are operators. *)

Termination == <>(st.pc \in {"done", "error"})                      \* C06 liveness

(* export of terminal states for the harness (outcome classes of the instance) *)
ExportTerminal == st.pc \in {"done", "error"} =>
   PrintT(ToJson([pc |-> st.pc, err |-> st.err, open |-> Len(st.main.open), nres |-> Len(st.main.res)]))
=============================================================================
