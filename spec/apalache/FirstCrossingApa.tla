-------------------------- MODULE FirstCrossingApa --------------------------
(* Apalache: the inductive invariant of FirstCrossing (the one the TLA+ proof system uses), discharged symbolically: *)
(*   apalache-mc check --init=IndInit --inv=IndInv --length=1   (IndInv is inductive)                              *)
(*   apalache-mc check --init=Init    --inv=IndInv --length=0   (it holds initially)                               *)
EXTENDS Integers, Sequences, Apalache

CONSTANT
  \* @type: Bool;
  Strict

VARIABLES
  \* @type: Str;
  phase,
  \* @type: Int;
  acc,
  \* @type: Int;
  prev,
  \* @type: Int;
  n,
  \* @type: Int;
  limit,
  \* @type: Seq({acc: Int, prev: Int, n: Int, limit: Int, early: Bool});
  done

INSTANCE FirstCrossing

CInitStrict == Strict = TRUE
CInitLoose  == Strict = FALSE

(* StoppedAtFirstCrossing with the index set written DOMAIN done (= 1..Len(done) for a sequence; the symbolic checker wants it this way) *)
Stopped == \A k \in DOMAIN done : RecordOK(done[k])
IndInv == /\ phase \in {"idle", "run"}
          /\ n >= 0
          /\ Stopped
          /\ (phase = "run" /\ n > 1) => ~Reached(prev, limit)

IndInit == /\ phase \in {"idle", "run"}
           /\ acc = Gen(1) /\ prev = Gen(1) /\ n = Gen(1) /\ limit = Gen(1)
           /\ done = Gen(4)
           /\ IndInv
=============================================================================
