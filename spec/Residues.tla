------------------------------ MODULE Residues ------------------------------
(***************************************************************************)
(* Residue numbering as the library does it (molecule.py, stochastic.py,   *)
(* system.py, mol_gen.py).  Not a listed property; written down because    *)
(* every atom of a generated molecule carries the number of the token it   *)
(* is a copy of, and because the pinned tree could not generate anything   *)
(* past the 26th token (repaired, DESIGN.md section 5).                    *)
(*                                                                         *)
(* A molecule is a sequence of elements; only the shape matters here:      *)
(*   token elements  [kind |-> "tok", nd |-> number of descriptors WRITTEN]*)
(*   objects         [kind |-> "sto", nrep, nend]                          *)
(* The parser keeps one counter per molecule.  A token in front of an      *)
(* object takes the counter's value; when the token is written without the *)
(* descriptor towards the element before it, it is built a second time     *)
(* (with that descriptor added) and takes the NEXT value; the object's     *)
(* repeat units and then its end groups take the following values; when    *)
(* the token still lacks the descriptor towards the object it is built     *)
(* once more AFTER the object and takes the value behind the object's      *)
(* tokens.  A token behind the last object takes one value however often   *)
(* it is built.  So: numbers are unique inside a molecule, but they need   *)
(* not follow the order of writing and may leave gaps.                     *)
(*                                                                         *)
(* In a system the offset of a component is the number of TOKENS of the    *)
(* components before it - not the number of values they used.  Theorem     *)
(* SystemUniqueIfNoGaps: numbers are unique over a system when no          *)
(* component but the last leaves a gap; ResiduesMC also shows the converse *)
(* direction fails (two tokens of different components share a number as   *)
(* soon as an earlier component has a token written without its implicit   *)
(* descriptors) - recorded as an observation in DESIGN.md, no listed       *)
(* property speaks about residue numbers.                                  *)
(***************************************************************************)
EXTENDS Naturals, Sequences, FiniteSets

Alphabet == <<"A", "B", "C", "D", "E", "F", "G", "H", "I", "J", "K", "L", "M", "N", "O", "P", "Q", "R", "S", "T", "U", "V", "W", "X", "Y", "Z">>
ResName(n) == Alphabet[(n % 26) + 1]

TokensOf(e) == IF e.kind = "tok" THEN 1 ELSE e.nrep + e.nend
MolTokens(es) == LET F[k \in 0..Len(es)] == IF k = 0 THEN 0 ELSE LET p == F[k - 1] IN p + TokensOf(es[k]) IN F[Len(es)]

(* is the token element k built a second time before / after the object that follows it *)
FollowedByObject(es, k) == k < Len(es) /\ es[k + 1].kind = "sto"
Rebuilt1(es, k) == es[k].kind = "tok" /\ FollowedByObject(es, k) /\ k > 1 /\ es[k].nd = 0
Rebuilt2(es, k) == es[k].kind = "tok" /\ FollowedByObject(es, k)
                   /\ (IF Rebuilt1(es, k) THEN 1 ELSE es[k].nd) < (IF k = 1 THEN 1 ELSE 2)

(* the parser's walk: state [c: counter, nums: sequence of records [elem, role, idx, num]]; a token in front of an object is *)
(* numbered when the object behind it has been read                                                                          *)
Walk(es, offset) ==
   LET Step(st, k) ==
         LET e == es[k] IN
         IF e.kind = "tok"
         THEN IF FollowedByObject(es, k)
              THEN [st EXCEPT !.c = @ + 1 + (IF Rebuilt1(es, k) THEN 1 ELSE 0)]     \* its number is settled behind the object
              ELSE [c |-> st.c + 1, nums |-> Append(st.nums, [elem |-> k, role |-> "tok", idx |-> 1, num |-> offset + st.c])]
         ELSE LET reps == [i \in 1..e.nrep |-> [elem |-> k, role |-> "rep", idx |-> i, num |-> offset + st.c + i - 1]]
                  ends == [i \in 1..e.nend |-> [elem |-> k, role |-> "end", idx |-> i, num |-> offset + st.c + e.nrep + i - 1]]
                  c1   == st.c + e.nrep + e.nend
                  hasPre == k > 1 /\ es[k - 1].kind = "tok"
                  preNum == IF Rebuilt2(es, k - 1) THEN c1 ELSE st.c - 1
                  pre  == IF hasPre THEN << [elem |-> k - 1, role |-> "tok", idx |-> 1, num |-> offset + preNum] >> ELSE <<>>
              IN [c |-> c1 + (IF hasPre /\ Rebuilt2(es, k - 1) THEN 1 ELSE 0), nums |-> st.nums \o pre \o reps \o ends]
       F[k \in 0..Len(es)] == IF k = 0 THEN [c |-> 0, nums |-> <<>>] ELSE LET p == F[k - 1] IN Step(p, k)
   IN F[Len(es)]

Numbering(es, offset) == Walk(es, offset).nums
ValuesUsed(es) == Walk(es, 0).c
NoGaps(es) == ValuesUsed(es) = MolTokens(es)

CompOffset(comps, c) == LET F[k \in 0..Len(comps)] == IF k = 0 THEN 0 ELSE LET p == F[k - 1] IN p + MolTokens(comps[k]) IN F[c - 1]
SystemNumbering(comps) == [c \in 1..Len(comps) |-> Numbering(comps[c], CompOffset(comps, c))]

(* well-formed shapes: tokens and objects alternate (two tokens in a row are one token) *)
WellFormed(es) == \A k \in 1..(Len(es) - 1) : ~(es[k].kind = "tok" /\ es[k + 1].kind = "tok")

(* ---- theorems (ResiduesMC) ---- *)
EveryTokenNumbered(es) == Len(Numbering(es, 0)) = MolTokens(es)
UniqueInMolecule(es) == LET nb == Numbering(es, 0) IN \A i, j \in 1..Len(nb) : nb[i].num = nb[j].num => i = j
WithinValuesUsed(es) == LET nb == Numbering(es, 0) IN \A i \in 1..Len(nb) : nb[i].num < ValuesUsed(es)
WritingOrderIfNoGaps(es) == NoGaps(es) => LET nb == Numbering(es, 0) IN \A i \in 1..Len(nb) : \A j \in 1..Len(nb) :
                               (nb[i].elem < nb[j].elem) => nb[i].num < nb[j].num
SystemUnique(comps) == LET sn == SystemNumbering(comps) IN
                       \A c1, c2 \in 1..Len(comps) : \A i \in 1..Len(sn[c1]) : \A j \in 1..Len(sn[c2]) :
                          (sn[c1][i].num = sn[c2][j].num) => (c1 = c2 /\ i = j)
SystemUniqueIfNoGaps(comps) == (\A c \in 1..(Len(comps) - 1) : NoGaps(comps[c])) => SystemUnique(comps)
NamesTotal(n) == ResName(n) \in {Alphabet[i] : i \in 1..26}
=============================================================================
