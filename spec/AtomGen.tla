------------------------------- MODULE AtomGen -------------------------------
(***************************************************************************)
(* C18.  Molecules generated from the stochastic atom graph, validated     *)
(* against the atom graph of the SPECIFICATION (module AtomGraph):         *)
(*   * the generated atoms fall into residue instances, each containing    *)
(*     ALL atoms of one token exactly once and exactly its internal bonds, *)
(*   * every other bond joins two residues along a non-static edge of the  *)
(*     specification's graph, with that edge's bond order,                 *)
(*   * the residues form a tree (connected, one bond per adjacent pair).   *)
(* Obs : Seq of observed molecules [nodes : Seq(spec node), edges :        *)
(* Seq(<<i, j, order>>), sane : BOOLEAN]; one TLC state per molecule.      *)
(* Residue instances are the blocks in creation order: a residue is        *)
(* completed right after its first atom has been added.                    *)
(***************************************************************************)
EXTENDS AtomGraph, Json, IOUtils

Obs == JsonDeserialize(IOEnv.TRACE_FILE)

VARIABLE i
Init == i = 1
Next == i < Len(Obs) /\ i' = i + 1
Spec == Init /\ [][Next]_i

TokOfNode(n) == CHOOSE t \in 1..Len(Tok) : TokOff[t-1] < n /\ n <= TokOff[t]
AtomInTok(n) == n - TokOff[TokOfNode(n) - 1]

(* blocks: F[k] = <<start positions>> *)
Blocks(o) ==
   LET F[k \in 0..Len(o.nodes)] ==
         IF k = 0 THEN <<>>
         ELSE LET prev == F[k-1] IN
              IF prev = <<>> THEN <<1>>
              ELSE LET s == prev[Len(prev)]                       \* start of the current block
                       t == TokOfNode(o.nodes[s]) IN
                   IF k - s >= NAt(t) THEN Append(prev, k) ELSE prev
   IN F[Len(o.nodes)]
(* block index of every position, as a sequence (computed once per molecule) *)
BlockIdx(o, bl) == [k \in 1..Len(o.nodes) |-> Cardinality({b \in 1..Len(bl) : bl[b] <= k})]
BlockEnd(o, bl, b) == IF b = Len(bl) THEN Len(o.nodes) ELSE bl[b+1] - 1

WholeResidues(o, bl) ==
   \A b \in 1..Len(bl) :
      LET t == TokOfNode(o.nodes[bl[b]]) IN
      /\ BlockEnd(o, bl, b) - bl[b] + 1 = NAt(t)
      /\ {o.nodes[k] : k \in bl[b]..BlockEnd(o, bl, b)} = {Node(t, a) : a \in 1..NAt(t)}
EdgeSetOf(o) == {o.edges[k] : k \in 1..Len(o.edges)}
Norm2(x, y, ord) == IF x < y THEN <<x, y, ord>> ELSE <<y, x, ord>>
InternalBondsExact(o, bl) ==
   LET bi == BlockIdx(o, bl)
       es == {Norm2(x[1], x[2], x[3]) : x \in EdgeSetOf(o)} IN
   \A b \in 1..Len(bl) :
      LET t == TokOfNode(o.nodes[bl[b]])
          pos(a) == CHOOSE k \in bl[b]..BlockEnd(o, bl, b) : o.nodes[k] = Node(t, a)
          want == {Norm2(pos(Tok[t].ibonds[k][1]), pos(Tok[t].ibonds[k][2]), Tok[t].ibonds[k][3]) : k \in 1..Len(Tok[t].ibonds)}
          got  == {e \in es : bi[e[1]] = b /\ bi[e[2]] = b}
      IN want = got
LinkEdges(o, bl) == LET bi == BlockIdx(o, bl) IN {e \in EdgeSetOf(o) : bi[e[1]] # bi[e[2]]}
NonStatic == {x \in Edges : x.kind # "static"}
NonStaticKeys == {<<x.u, x.v, x.ord>> : x \in NonStatic}
LinksAllowed(o, bl) ==
   \A e \in LinkEdges(o, bl) :
      <<o.nodes[e[1]], o.nodes[e[2]], e[3]>> \in NonStaticKeys \/ <<o.nodes[e[2]], o.nodes[e[1]], e[3]>> \in NonStaticKeys
ResidueTree(o, bl) ==
   LET bi == BlockIdx(o, bl)
       le == LinkEdges(o, bl) IN
   /\ Cardinality(le) = Len(bl) - 1
   /\ Len(o.edges) = Cardinality(EdgeSetOf(o))
   \* connected: every block but the first is linked to an earlier block (creation order)
   /\ \A b \in 2..Len(bl) : \E e \in le : (bi[e[1]] = b /\ bi[e[2]] < b) \/ (bi[e[2]] = b /\ bi[e[1]] < b)

Failed(o) ==
   IF o.kind # "mol" THEN {}
   ELSE LET bl == Blocks(o) IN
        (IF WholeResidues(o, bl) THEN {} ELSE {"residue-not-a-whole-token"}) \cup
        (IF WholeResidues(o, bl) /\ ~InternalBondsExact(o, bl) THEN {"internal-bonds"} ELSE {}) \cup
        (IF WholeResidues(o, bl) /\ ~LinksAllowed(o, bl) THEN {"link-not-an-edge-of-the-atom-graph"} ELSE {}) \cup
        (IF WholeResidues(o, bl) /\ ~ResidueTree(o, bl) THEN {"residues-not-a-tree"} ELSE {}) \cup
        (IF o.sane THEN {} ELSE {"not-sanitisable"})

Diagnose == LET f == Failed(Obs[i]) IN f = {} \/ PrintT(ToJson([obs |-> i, failed |-> f, blocks |-> Len(Blocks(Obs[i]))]))
=============================================================================
