---------------------------- MODULE EnsembleTrace ----------------------------
(***************************************************************************)
(* Trace-tree validation of System.generator / System.generate against     *)
(* Ensemble.  Events: "choice" (component pick, or a decision inside the   *)
(* member being generated), "draw", and "member" (a molecule was yielded:  *)
(* its projected atoms / bonds / mass).  Leaf observations: "stop" (the    *)
(* iteration ended), "error", "single" (System.generate returned).         *)
(***************************************************************************)
EXTENDS Ensemble, Json, IOUtils

T == JsonDeserialize(IOEnv.TRACE_FILE)
Single == IOEnv.SINGLE = "1"        \* System.generate: exactly one member, no accumulation

GT(c) == INSTANCE GenTraceOps WITH Elems <- Comps[c].elems, Tok <- Comps[c].tok

VARIABLES l, es

Seq1(s) == [i \in 1..Len(s) |-> s[i] + 1]

(* ---- clauses ---- *)
PickShape(ev) == ev.kind = "choice" /\ Seq1(ev.a) = [c \in 1..N |-> c] /\ Len(ev.p) = N /\ ev.k >= 0 /\ ev.k < N
FailedPick(ev) ==
   (IF PickShape(ev) THEN {} ELSE {"pick-candidates"}) \cup
   (IF PickShape(ev) /\ ~Positive(ev.p[ev.k + 1]) THEN {"pick-zero-probability-option-taken"} ELSE {}) \cup
   (IF ev.kind = "choice" /\ ~ShareLawHolds(ev.pn) THEN {"pick-law-not-mass-share-law"} ELSE {}) \cup
   (IF ev.kind = "choice" /\ ~ShareLawHolds(ev.pn) /\ PickShape(ev) /\ DeclaredLawHolds(ev.pn) THEN {"pick-law-is-declared-fraction-law"} ELSE {})

InMember == es.pc = "member" /\ es.g[1].pc \notin {"done", "error"}
MemberComplete == es.pc = "member" /\ es.g[1].pc = "done"

(* what the next event must be, and the successor *)
Next == \E i \in 1..Len(T[l].kids) :
          LET c  == T[l].kids[i]
              ev == T[c].ev IN
          /\ l' = c
          /\ \/ /\ es.pc = "pick" /\ ev.kind = "choice" /\ ev.k >= 0 /\ ev.k + 1 <= Len(ev.a) /\ ev.a[ev.k + 1] + 1 \in 1..N
                /\ es' = Pick(es, ev.a[ev.k + 1] + 1)
             \/ /\ InMember /\ ev.kind \in {"choice", "draw"}
                /\ \/ GT(es.k)!EvOK(es.g[1], ev) /\ es' = [es EXCEPT !.g = <<GT(es.k)!Step(es.g[1], ev)>>]
                   \/ ~GT(es.k)!EvOK(es.g[1], ev) /\ GT(es.k)!AltOK(es.g[1], ev)
                        /\ es' = [es EXCEPT !.g = <<GT(es.k)!Step(es.g[1].alt[1], ev)>>]
                   \/ ~GT(es.k)!EvOK(es.g[1], ev) /\ ~GT(es.k)!AltOK(es.g[1], ev) /\ GT(es.k)!Tolerable(es.g[1], ev)
                        /\ es' = [es EXCEPT !.g = <<GT(es.k)!TolStep(es.g[1], ev)>>]
             \/ /\ MemberComplete /\ ev.kind = "member"
                /\ es' = IF Single THEN [MemberDone(es) EXCEPT !.pc = IF @ = "error" THEN "error" ELSE "end"] ELSE MemberDone(es)
Spec == /\ l = 1 /\ es = EInit
        /\ [][Next]_<<l, es>>

FailedLeaf(o) ==
   CASE o.kind = "none" -> {}
     [] o.kind = "stop" -> IF es.pc = "end" THEN {} ELSE {"stops-before-system-mass:" \o es.pc}
     [] o.kind = "error" ->
          IF es.pc = "error" \/ (es.pc = "member" /\ es.g[1].pc = "error") THEN {}
          ELSE IF MemberComplete /\ es.g[1].main.open # <<>> THEN {}      \* refuses a member that is not fully generated
          ELSE {"error-not-expected:" \o es.pc}
     [] OTHER -> {"unknown-observation"}

Diagnose ==
   /\ LET f == FailedLeaf(T[l].obs) \cup (IF Single \/ StopsExactly(es) THEN {} ELSE {"model-StopsExactly"}) IN
      f = {} \/ PrintT(ToJson([node |-> l, at |-> "obs", failed |-> f, pc |-> es.pc, acc |-> es.acc, n |-> es.n]))
   /\ \A i \in 1..Len(T[l].kids) :
        LET c  == T[l].kids[i]
            ev == T[c].ev
            f  == IF es.pc = "pick" THEN (IF ev.kind = "choice" THEN FailedPick(ev) ELSE {"pick-expected:" \o ev.kind})
                  ELSE IF es.pc \in {"end", "error"} THEN {"continues-after-end:" \o es.pc}
                  ELSE IF InMember THEN (IF ev.kind \in {"choice", "draw"} THEN GT(es.k)!FailedEv(es.g[1], ev)
                                        ELSE {"member-yielded-before-complete:" \o es.g[1].pc})
                  ELSE IF MemberComplete THEN
                         (IF ev.kind = "member"
                          THEN {("member-" \o x) : x \in GT(es.k)!FailedFinal(es.g[1], ev)}
                               \cup (IF es.g[1].main.open # <<>> THEN {"yields-member-not-fully-generated"} ELSE {})
                          ELSE {"member-expected:" \o ev.kind})
                  ELSE {"generation-error-expected:" \o es.g[1].err}
        IN f = {} \/ PrintT(ToJson([node |-> c, at |-> "event", failed |-> f, pc |-> es.pc, acc |-> es.acc, n |-> es.n,
                                    comp |-> es.k]))
LeafSummary == T[l].kids = <<>> => PrintT(ToJson([leaf |-> l, pc |-> es.pc, acc |-> es.acc, n |-> es.n]))
=============================================================================
