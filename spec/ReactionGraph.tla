---------------------------- MODULE ReactionGraph ----------------------------
(***************************************************************************)
(* C16.  The reaction graph of a molecule, as an operator of the instance, *)
(* built from the SAME selection laws as the generation machine:           *)
(*   * one node per token and per bond descriptor,                         *)
(*   * from a descriptor node: reaction edges (the partner pick of chain   *)
(*     growth), termination edges (the end-group pick of capping) and      *)
(*     transition edges (the hand-over to the next element).               *)
(* Edges carry exact probabilities <<num, den>>; options of probability 0  *)
(* are not edges.                                                          *)
(*                                                                         *)
(* GraphAgrees (checked by TLC on every reachable state of the generation  *)
(* machine, module GenerateMC + this one) states that the law at every     *)
(* partner / listed / capping / hand-over decision IS the out-edge set of  *)
(* the chosen descriptor's node - so the graph states the generator's      *)
(* probabilities and not a second opinion.                                 *)
(***************************************************************************)
EXTENDS Generate

(* edges out of an open descriptor o = [tok, d, w, tr, ...] into the descriptor list ds with weights ws restricted to compatible ones *)
Weighted(ds, o) ==
   LET cc == SelectIdx(ds, LAMBDA td : Compatible(ODesc(o), DRec(td)))
       lw == IF cc = <<>> THEN <<>> ELSE Law([k \in 1..Len(cc) |-> DRec(ds[cc[k]]).w])
   IN [k \in 1..Len(cc) |-> [to |-> ds[cc[k]], p |-> lw[k], idx |-> cc[k]]]
Listed(ds, o) ==
   IF SumSeq(o.tr) = 0 THEN <<>>
   ELSE LET lw == TransLaw(o.tr) IN
        [k \in 1..Len(o.tr) |-> [to |-> IF k <= Len(ds) THEN ds[k] ELSE [tok |-> 0, d |-> 0], p |-> lw[k], idx |-> k]]
OnlyPositive(es) == SelectSeq(es, LAMBDA x : Positive(x.p))

(* the partner pick of growth: listed weights over all descriptors of the object, else weights of compatible repeat descriptors *)
PartnerEdges(e, o) == IF o.tr # <<>> THEN Listed(AllD(e), o) ELSE Weighted(RepD(e), o)
(* the end-group pick of capping *)
TermEdges(e, o) == Weighted(EndD(e), o)
(* the pick of a token's descriptor at a hand-over *)
TokenEdges(t, o) == Weighted(DescsOfToks(<<t>>), o)

Static(t, d) == [inst |-> 0, tok |-> t, d |-> d, w |-> Tok[t].descs[d].w, tr |-> Tok[t].descs[d].tr]
Reservable(e, td) == Compatible(Outward(e.right), DRec(td))
MatchesLeft(e, td) == DRec(td).sym = e.left.sym /\ DRec(td).id = e.left.id
WithLeft(e, td) == [Static(td.tok, td.d) EXCEPT !.w = e.left.w, !.tr = e.left.tr]   \* the left terminal's weight / list rides on the prefix's descriptor

(* ---- the graph ---- *)
ElemOfTok(t) == CHOOSE i \in 1..Len(Elems) :
                   \/ (Elems[i].kind = "tok" /\ Elems[i].tok = t)
                   \/ (Elems[i].kind = "sto" /\ \E k \in 1..Len(AllD(Elems[i])) : AllD(Elems[i])[k].tok = t)
IsRep(e, t) == \E k \in 1..Len(e.rep) : e.rep[k] = t

Reaction(td) ==    \* only descriptors of repeat units and end groups of a stochastic object react inside it
   LET e == Elems[ElemOfTok(td.tok)] IN
   IF e.kind = "sto" THEN OnlyPositive(PartnerEdges(e, Static(td.tok, td.d))) ELSE <<>>
TermOf(td) ==
   LET e == Elems[ElemOfTok(td.tok)] IN
   IF e.kind = "sto" /\ Static(td.tok, td.d).tr = <<>> THEN OnlyPositive(TermEdges(e, Static(td.tok, td.d))) ELSE <<>>
Transition(td) ==
   LET i == ElemOfTok(td.tok)
       e == Elems[i] IN
   IF i = Len(Elems) THEN <<>>
   ELSE LET f == Elems[i + 1] IN
        IF e.kind = "tok" /\ f.kind = "sto" THEN
             (IF MatchesLeft(f, td) THEN OnlyPositive(PartnerEdges(f, WithLeft(f, td))) ELSE <<>>)
        ELSE IF e.kind = "sto" /\ f.kind = "tok" THEN
             (IF IsRep(e, td.tok) /\ Reservable(e, td) THEN OnlyPositive(TokenEdges(f.tok, Static(td.tok, td.d))) ELSE <<>>)
        ELSE IF e.kind = "sto" /\ f.kind = "sto" THEN
             (IF IsRep(e, td.tok) /\ Reservable(e, td) /\ MatchesLeft(f, td) THEN OnlyPositive(PartnerEdges(f, WithLeft(f, td))) ELSE <<>>)
        ELSE <<>>

AllDescNodes == UNION {{[tok |-> t, d |-> d] : d \in 1..Len(Tok[t].descs)} : t \in 1..Len(Tok)}
NodeCount == Len(Tok) + Cardinality(AllDescNodes)

(* ---- theorems on the graph ---- *)
SumsToOne(es) == es = <<>> \/ (LET den == es[1].p[2] IN
                               /\ \A k \in 1..Len(es) : es[k].p[2] = den
                               /\ SumSeq([k \in 1..Len(es) |-> es[k].p[1]]) = den)
Normalised == \A td \in AllDescNodes : SumsToOne(Reaction(td)) /\ SumsToOne(TermOf(td)) /\ SumsToOne(Transition(td))
WeightEdgesCompatible ==
   \A td \in AllDescNodes : Static(td.tok, td.d).tr = <<>> =>
      /\ \A k \in 1..Len(Reaction(td)) : Compatible(DRec(td), DRec(Reaction(td)[k].to))
      /\ \A k \in 1..Len(TermOf(td)) : Compatible(DRec(td), DRec(TermOf(td)[k].to))
      /\ \A k \in 1..Len(Transition(td)) : Compatible(DRec(td), DRec(Transition(td)[k].to))

(* ---- the machine's law at a decision = the out-edges of the chosen descriptor (evaluated on Generate states) ---- *)
EdgesAsLaw(es) == [k \in 1..Len(es) |-> es[k].p]
EdgesAsCand(es) == [k \in 1..Len(es) |-> es[k].idx]
GraphAgrees(st) ==
   LET e == Elems[st.ei] IN
   CASE st.pc = "pickPartner" -> LET x == PartnerEdges(e, st.main.open[st.sel]) IN st.cand = EdgesAsCand(x) /\ st.law = EdgesAsLaw(x)
     [] st.pc = "pickListed"  -> LET x == PartnerEdges(e, st.main.open[st.sel]) IN st.cand = EdgesAsCand(x) /\ st.law = EdgesAsLaw(x)
     [] st.pc = "capEnd"      -> LET x == TermEdges(e, st.work.open[st.sel]) IN st.cand = EdgesAsCand(x) /\ st.law = EdgesAsLaw(x)
     [] st.pc = "handOver"    -> LET x == TokenEdges(e.tok, st.main.open[1]) IN st.cand = EdgesAsCand(x) /\ st.law = EdgesAsLaw(x)
     [] OTHER -> TRUE
=============================================================================
