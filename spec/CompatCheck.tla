---------------------------- MODULE CompatCheck ----------------------------
(***************************************************************************)
(* C03.  The complete universe of bond descriptors is enumerated by TLC;   *)
(* one state per descriptor d.  In every state the model theorems about    *)
(* Compatible are checked for d against the whole universe, and the row of *)
(* the implementation's relation recorded for d (three recordings: both    *)
(* descriptors built by the constructor, both parsed out of a token, one   *)
(* of each) must be exactly {e : Compatible(d, e)}.                        *)
(***************************************************************************)
EXTENDS Notation, TLC, Json, IOUtils, SequencesExt

Impl == JsonDeserialize(IOEnv.TRACE_FILE)   \* [rel : [name -> [key -> Seq(key)]], names : Seq(name)]

Syms     == {"$", "<", ">"}
Ids      == {NoId} \cup 0..12
BondPrefixes == {"", "-", "=", "#", ":"}
WForms   == {"none", "scalar", "list", "zero", "zlist"}

U == [sym : Syms, id : Ids, pre : BondPrefixes, wf : WForms]
       \cup [sym : {""}, id : {NoId}, pre : BondPrefixes, wf : {"none"}]

D(u) == [sym |-> u.sym, id |-> u.id, ord |-> OrdOfPrefix(u.pre)]
Key(u) == u.sym \o "/" \o ToString(u.id) \o "/" \o u.pre \o "/" \o u.wf

USeq == SetToSeq(U)
N == Len(USeq)

Row(u) == {e \in U : Compatible(D(u), D(e))}

VARIABLES i, total       \* total: compatible ordered pairs counted so far
Init == i = 0 /\ total = 0
Next == i < N /\ i' = i + 1 /\ total' = total + Cardinality(Row(USeq[i + 1]))
Spec == Init /\ [][Next]_<<i, total>>

Cur == USeq[i]

(* ---- theorems of the model, checked for every descriptor ---- *)
Symmetric == i > 0 => \A e \in U : Compatible(D(Cur), D(e)) = Compatible(D(e), D(Cur))
EmptyBondsNothing == i > 0 /\ Cur.sym = "" => Row(Cur) = {}
WeightIndependent == i > 0 => \A e \in U : \A wf \in WForms :
        LET f == [e EXCEPT !.wf = wf] IN
        f \in U => /\ Compatible(D(Cur), D(e)) = Compatible(D(Cur), D(f))
                   /\ Compatible(D(e), D(Cur)) = Compatible(D(f), D(Cur))
IffStatement == i > 0 => \A e \in U :
        (e \in Row(Cur)) = ( /\ Cur.sym # "" /\ e.sym # ""
                             /\ Cur.id = e.id
                             /\ OrdOfPrefix(Cur.pre) = OrdOfPrefix(e.pre)
                             /\ \/ Cur.sym = "$" /\ e.sym = "$"
                                \/ {Cur.sym, e.sym} = {"<", ">"} )
NonVacuous == i = N => \E u \in U : Row(u) # {}

(* ---- conformance: the implementation's relation, row by row ---- *)
ImplRow(name, u) == LET r == Impl.rel[name][Key(u)] IN {r[k] : k \in 1..Len(r)}
Mismatch(name, u) ==
   LET want == {Key(e) : e \in Row(u)}
       got  == ImplRow(name, u)
   IN [rel |-> name, d |-> Key(u), missing |-> want \ got, extra |-> got \ want]

(* never fails: prints one JSON record per differing row, Python relays them *)
Conformance ==
   i > 0 => \A k \in 1..Len(Impl.names) :
              LET m == Mismatch(Impl.names[k], Cur) IN
              (m.missing = {} /\ m.extra = {}) \/ PrintT(ToJson(m))
Covered == i = N => PrintT(ToJson([universe |-> N,
                                   pairs |-> N * N,
                                   compatible_pairs |-> total]))
=============================================================================
