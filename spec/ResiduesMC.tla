----------------------------- MODULE ResiduesMC -----------------------------
(* every system of up to MaxComps components of up to MaxLen elements: tokens with 0..2 written descriptors, objects with 1..2 repeat units and 0..1 end groups *)
EXTENDS Residues, TLC
CONSTANTS MaxLen, MaxComps
ElemSet == {[kind |-> "tok", nd |-> d, nrep |-> 0, nend |-> 0] : d \in 0..2} \cup {[kind |-> "sto", nd |-> 0, nrep |-> r, nend |-> e] : r \in 1..2, e \in 0..1}
VARIABLES comps
Init == comps = << <<>> >>
Next == \/ \E e \in ElemSet : /\ Len(comps[Len(comps)]) < MaxLen
                              /\ WellFormed(Append(comps[Len(comps)], e))
                              /\ comps' = [comps EXCEPT ![Len(comps)] = Append(@, e)]
        \/ Len(comps) < MaxComps /\ comps[Len(comps)] # <<>> /\ comps' = Append(comps, <<>>)
Spec == Init /\ [][Next]_comps
T1 == \A c \in 1..Len(comps) : EveryTokenNumbered(comps[c]) /\ UniqueInMolecule(comps[c]) /\ WithinValuesUsed(comps[c])
T2 == \A c \in 1..Len(comps) : WritingOrderIfNoGaps(comps[c])
T3 == SystemUniqueIfNoGaps(comps)
T4 == \A n \in 0..60 : NamesTotal(n)
(* NOT a theorem: TLC answers with two components, the first a token written without descriptor in front of an object *)
SystemUniqueAlways == SystemUnique(comps)
=============================================================================
