------------------------------ MODULE AtomGraph ------------------------------
(***************************************************************************)
(* C17 / C18.  The stochastic atom graph of a molecule as an operator of   *)
(* the instance: one node per atom of every token (element order; inside   *)
(* a stochastic object repeat units first, then end groups), static edges  *)
(* for the tokens' internal bonds (both directions), and between the       *)
(* attachment atoms of compatible bond descriptors                         *)
(*   stochastic  edges: repeat unit -> repeat unit, weight of the partner  *)
(*                      (or the listed transition weight),                 *)
(*   termination edges: repeat unit -> end group,                          *)
(*   transition  edges: element -> next element, respecting the terminal   *)
(*                      descriptors between them.                          *)
(* No edge leaves an end group.                                            *)
(***************************************************************************)
EXTENDS Generate

TokOff == LET F[t \in 0..Len(Tok)] == IF t = 0 THEN 0 ELSE F[t-1] + NAt(t) IN F
Node(t, a) == TokOff[t-1] + a
NNodes == TokOff[Len(Tok)]
NodeAttr == LET F[t \in 0..Len(Tok)] == IF t = 0 THEN <<>> ELSE F[t-1] \o [a \in 1..NAt(t) |-> <<Tok[t].atoms[a][1], Tok[t].atoms[a][2], Tok[t].atoms[a][4]>>]
            IN F[Len(Tok)]         \* <<Z, charge, aromatic>> per node

AtomOf(td) == Node(td.tok, DRec(td).atom)
E(u, v, kind, w, o) == [u |-> u, v |-> v, kind |-> kind, w |-> w, ord |-> o, src |-> <<0, 0>>, dst |-> <<0, 0>>]
DE(g, h, kind, w) == [u |-> AtomOf(g), v |-> AtomOf(h), kind |-> kind, w |-> w, ord |-> DRec(g).ord, src |-> <<g.tok, g.d>>, dst |-> <<h.tok, h.d>>]
Free == 0 - 1      \* weight not prescribed (edge admissible, not required)

StaticEdges == UNION {UNION {{E(Node(t, Tok[t].ibonds[k][1]), Node(t, Tok[t].ibonds[k][2]), "static", 1, Tok[t].ibonds[k][3]),
                              E(Node(t, Tok[t].ibonds[k][2]), Node(t, Tok[t].ibonds[k][1]), "static", 1, Tok[t].ibonds[k][3])}
                             : k \in 1..Len(Tok[t].ibonds)} : t \in 1..Len(Tok)}

IsEndOf(e, t) == \E k \in 1..Len(e.end) : e.end[k] = t
IsRepOf(e, t) == \E k \in 1..Len(e.rep) : e.rep[k] = t

(* edges inside one stochastic object *)
InnerEdges(e) ==
   LET ds == AllD(e) IN
   UNION {
     LET g == ds[i] IN
     IF ~IsRepOf(e, g.tok) THEN {}                          \* nothing leaves an end group
     ELSE IF DRec(g).tr # <<>>
          THEN \* listed weights towards repeat units; towards end groups a termination edge is admissible (weight not prescribed:
               \* capping uses the end groups' weights, a listed entry its own)
               {DE(g, ds[j], "stochastic", DRec(g).tr[j])
                  : j \in {j \in 1..Len(ds) : j <= Len(DRec(g).tr) /\ DRec(g).tr[j] > 0 /\ IsRepOf(e, ds[j].tok) /\ Compatible(DRec(g), DRec(ds[j]))}}
               \cup {DE(g, ds[j], "termination", Free) : j \in {j \in 1..Len(ds) : IsEndOf(e, ds[j].tok) /\ Compatible(DRec(g), DRec(ds[j]))}}
          ELSE {DE(g, ds[j], IF IsRepOf(e, ds[j].tok) THEN "stochastic" ELSE "termination", DRec(ds[j]).w)
                  : j \in {j \in 1..Len(ds) : DRec(ds[j]).w > 0 /\ Compatible(DRec(g), DRec(ds[j]))}}
     : i \in 1..Len(ds)}

(* descriptors through which element e can be left / entered *)
ExitDescs(e) == IF e.kind = "tok" THEN DescsOfToks(<<e.tok>>)
                ELSE SelectSeq(RepD(e), LAMBDA td : Compatible(Outward(e.right), DRec(td)))
EntryDescs(e, l) ==   \* descriptors of e that the descriptor l of the previous element may bond to
   IF e.kind = "tok" THEN SelectSeq(DescsOfToks(<<e.tok>>), LAMBDA td : Compatible(DRec(l), DRec(td)))
   ELSE SelectSeq(RepD(e), LAMBDA td : Compatible(DRec(l), DRec(td)) /\ Compatible([sym |-> e.left.sym, id |-> e.left.id, ord |-> 1], DRec(td)))
SeqSet(s) == {s[i] : i \in 1..Len(s)}
TransitionEdges ==
   UNION {UNION {{DE(l, r, "transition", DRec(r).w) : r \in SeqSet(EntryDescs(Elems[i+1], l))}
                 : l \in SeqSet(ExitDescs(Elems[i]))} : i \in 1..(Len(Elems) - 1)}

Edges == StaticEdges \cup UNION {InnerEdges(Elems[i]) : i \in StoElems} \cup TransitionEdges

(* ---- theorems ---- *)
EndGroupAtoms == UNION {UNION {{Node(Elems[i].end[k], a) : a \in 1..NAt(Elems[i].end[k])} : k \in 1..Len(Elems[i].end)} : i \in StoElems}
NothingLeavesEndGroups == \A x \in Edges : x.kind # "static" => x.u \notin EndGroupAtoms
StaticSymmetric == \A x \in StaticEdges : E(x.v, x.u, "static", 1, x.ord) \in StaticEdges
=============================================================================
