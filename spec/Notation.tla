------------------------------ MODULE Notation ------------------------------
(***************************************************************************)
(* Descriptor algebra of G-BigSMILES: the operators every other module of  *)
(* the specification is built from.                                        *)
(*                                                                         *)
(* A bond descriptor is a record                                           *)
(*   [sym : {"", "$", "<", ">"},   "" is the empty terminal descriptor []  *)
(*    id  : Int,                   -1 = no id (an id of its own)           *)
(*    ord : Nat]                   bond order it forms: 1, 2, 3, 15 (=1.5) *)
(* plus, where weights matter, w (scaled integer weight) and tr (sequence  *)
(* of scaled transition weights, <<>> = none).                             *)
(***************************************************************************)
EXTENDS Conjugation, Sequences, FiniteSets
(* Conjugation: NoId, Conjugate, Compatible - the conjugation rule of C03, in a module of its own so that the *)
(* proof system can be pointed at it (CompatProofs.tla proves its theorems for ALL ids and bond orders).       *)

(* bond order denoted by the characters in front of a descriptor *)
OrdOfPrefix(p) == CASE p = "=" -> 2
                    [] p = "#" -> 3
                    [] p = ":" -> 15
                    [] OTHER   -> 1

(* ---- sequences ---- *)
RECURSIVE SumSeq(_)
SumSeq(s) == IF s = <<>> THEN 0 ELSE Head(s) + SumSeq(Tail(s))

AllEqual(s) == \A i \in 1..Len(s) : s[i] = s[1]

SelectIdx(s, P(_)) ==
   LET F[i \in 0..Len(s)] == IF i = 0 THEN <<>>
                             ELSE IF P(s[i]) THEN Append(F[i-1], i) ELSE F[i-1]
   IN F[Len(s)]

RemoveAt(s, k) == [i \in 1..(Len(s)-1) |-> IF i < k THEN s[i] ELSE s[i+1]]

(* ---- selection laws (C08): sequences of <<numerator, denominator>> ---- *)
(* proportional to the weights; equal weights (including all zero) mean a  *)
(* uniform pick.                                                           *)
Law(ws) == IF AllEqual(ws) THEN [i \in 1..Len(ws) |-> <<1, Len(ws)>>]
           ELSE LET W == SumSeq(ws) IN [i \in 1..Len(ws) |-> <<ws[i], W>>]

(* the listed transition weights of a descriptor, exactly as written       *)
TransLaw(tr) == LET W == SumSeq(tr) IN [i \in 1..Len(tr) |-> <<tr[i], W>>]

RatEq(a, b) == a[1] * b[2] = b[1] * a[2]
Positive(q) == q[1] > 0 /\ q[2] > 0

LawWellFormed(law) ==
   /\ \A i \in 1..Len(law) : law[i][2] = law[1][2] /\ law[i][2] > 0 /\ law[i][1] >= 0
   /\ SumSeq([i \in 1..Len(law) |-> law[i][1]]) = law[1][2]
=============================================================================
