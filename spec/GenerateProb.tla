----------------------------- MODULE GenerateProb -----------------------------
(***************************************************************************)
(* C19: the probability with which the generation machine produces a       *)
(* molecule, derived from the machine itself.                              *)
(*                                                                         *)
(* GenerateMC with two history variables: the law fractions of the options *)
(* taken (hist) and the targets drawn (drawn).  Every behaviour ends in a  *)
(* terminal state that is exported with its molecule (atom by atom), its   *)
(* history and the unit count of every block.  With one representative     *)
(* target per interval of cumulative block masses, the probability of a    *)
(* molecule X is                                                           *)
(*    sum over exported behaviours ending in X of                          *)
(*        product(hist) * product over blocks of P(target in its interval) *)
(* (the harness multiplies - TLC's integers are 32 bit - and takes the     *)
(* interval probabilities from the declared law).  get_ensemble_prob is    *)
(* compared with this number.                                              *)
(***************************************************************************)
EXTENDS GenerateMC, SequencesExt

VARIABLES hist, drawn
pvars == <<st, hist, drawn>>

PInit == Init /\ hist = <<>> /\ drawn = <<>>
PChoice == /\ st.pc \in DecisionPcs
           /\ \E k \in 1..Len(st.cand) : /\ Positive(st.law[k])
                                         /\ st' = Apply(st, k)
                                         /\ hist' = Append(hist, st.law[k])
           /\ UNCHANGED drawn
PDraw == /\ st.pc = "draw"
         /\ \E t \in Targets[st.ei] : st' = ApplyDraw(st, t) /\ drawn' = Append(drawn, t)
         /\ UNCHANGED hist
PNext == PChoice \/ PDraw
PSpec == PInit /\ [][PNext]_pvars

(* the history is consistent with the machine: every fraction recorded is positive and at most one *)
HistSane == \A i \in 1..Len(hist) : hist[i][1] > 0 /\ hist[i][1] <= hist[i][2]

ExportTerminalP == st.pc \in {"done", "error"} =>
   PrintT(ToJson([pc    |-> st.pc, err |-> st.err,
                  atoms |-> IF st.pc = "done" THEN MolAtoms(st.main) ELSE <<>>,
                  bonds |-> IF st.pc = "done" THEN SetToSeq(MolBonds(st.main)) ELSE <<>>,
                  open  |-> Len(st.main.open),
                  hist  |-> hist, drawn |-> drawn,
                  units |-> [k \in 1..Len(st.blocks) |-> st.blocks[k].units],
                  early |-> [k \in 1..Len(st.blocks) |-> st.blocks[k].early]]))
=============================================================================
