------------------------------ MODULE TypingMC ------------------------------
(* every match relation between the rules and N atoms: the theorems of Typing *)
EXTENDS Typing
CONSTANT N
VARIABLE M
Init == M \in [1..NR -> SUBSET (1..N)]
Next == UNCHANGED M
Spec == Init /\ [][Next]_M
T1 == ExactlyOneTypePerAtom(M, N)
T2 == NumberingFree(M, N)
T3 == LongestWins(M, N)
=============================================================================
