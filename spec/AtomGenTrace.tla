---------------------------- MODULE AtomGenTrace ----------------------------
(***************************************************************************)
(* Trace-TREE validation of graph_generate.AtomGraph.generate against      *)
(* AtomGenMachine: every call on the random generator (number of options,  *)
(* probability vector, result), every Schulz-Zimm draw, and the generated  *)
(* graph at every return (graph node of every atom in creation order, bond *)
(* set with orders) must be explained.  One TLC state per tree node.       *)
(* Nothing fails inside TLC: nodes that cannot be explained are printed    *)
(* with the clauses that do not hold.                                      *)
(***************************************************************************)
EXTENDS AtomGenMachine, Json, IOUtils

T == JsonDeserialize(IOEnv.TRACE_FILE)

VARIABLES l, st, dv

CDecision(s, ev)   == ev.kind = "choice" => s.pc \in DecisionPcs
CDraw(s, ev)       == ev.kind = "draw" => s.pc = "draw"
CCandidates(s, ev) == (ev.kind = "choice" /\ s.pc \in DecisionPcs) => Len(ev.a) = Len(s.cand)
CLaw(s, ev)        == (ev.kind = "choice" /\ s.pc \in DecisionPcs) =>
                         /\ Len(ev.p) = Len(s.law)
                         /\ \A i \in 1..Len(ev.p) : RatEq(ev.p[i], s.law[i])
CPositive(s, ev)   == (ev.kind = "choice" /\ s.pc \in DecisionPcs /\ ev.k >= 0 /\ ev.k + 1 <= Len(s.law)) => Positive(s.law[ev.k + 1])
CRange(s, ev)      == ev.kind = "choice" => (ev.k >= 0 /\ ev.k + 1 <= Len(ev.a))
EvOK(s, ev) == CDecision(s, ev) /\ CDraw(s, ev) /\ CCandidates(s, ev) /\ CLaw(s, ev) /\ CRange(s, ev) /\ CPositive(s, ev)
FailedEv(s, ev) ==
   (IF CDecision(s, ev) THEN {} ELSE {"decision-not-expected:" \o s.pc}) \cup
   (IF CDraw(s, ev) THEN {} ELSE {"draw-not-expected:" \o s.pc}) \cup
   (IF CCandidates(s, ev) THEN {} ELSE {"candidates:" \o s.pc}) \cup
   (IF CLaw(s, ev) THEN {} ELSE {"law:" \o s.pc}) \cup
   (IF CPositive(s, ev) THEN {} ELSE {"zero-probability-option-taken:" \o s.pc}) \cup
   (IF CRange(s, ev) THEN {} ELSE {"option-not-offered:" \o s.pc})
Step(s, ev) == IF ev.kind = "draw" THEN ApplyDraw(s, ev.t) ELSE Apply(s, ev.k + 1)

(* following the implementation past a divergence of the law: the option it took exists in the machine *)
Tolerable(s, ev) == ev.kind = "choice" /\ s.pc \in DecisionPcs /\ Len(ev.a) = Len(s.cand) /\ ev.k >= 0 /\ ev.k + 1 <= Len(s.cand)

SeqToSet(s) == {s[i] : i \in 1..Len(s)}
FailedFinal(s, o) ==
   LET b == s.main IN
   (IF Len(o.nodes) = Len(b.atoms) /\ \A i \in 1..Len(b.atoms) : o.nodes[i] = b.atoms[i].sn THEN {} ELSE {"atoms"}) \cup
   (IF {Norm3(x) : x \in SeqToSet(o.edges)} = BondSet(b) /\ Len(o.edges) = Len(b.bonds) THEN {} ELSE {"bonds"})
FailedObs(s, o) ==
   CASE o.kind = "none" -> {}
     [] o.kind = "nontermination" -> {"nontermination"}
     [] o.kind = "error" -> IF s.pc = "error" THEN {} ELSE {"error-not-expected:" \o s.pc}
     [] o.kind = "mol" -> IF s.pc # "done" THEN {"return-not-expected:" \o s.pc} ELSE FailedFinal(s, o)
FailedModel(s) ==
   IF s.pc \in DecisionPcs \cup {"done", "draw"} THEN
      (IF WholeResidues(s.main) THEN {} ELSE {"model-WholeResidues"}) \cup
      (IF WholeResidues(s.main) /\ ~InternalBondsExact(s.main) THEN {"model-InternalBonds"} ELSE {}) \cup
      (IF LinksAlongEdges(s.main) THEN {} ELSE {"model-LinksAlongEdges"}) \cup
      (IF ResidueTree(s.main) THEN {} ELSE {"model-ResidueTree"})
   ELSE {}

(* census: decision kind x law class *)
KindIdx(pc) == CASE pc = "stochNode" -> 0 [] pc = "termEdge" -> 1 [] pc = "stochEdge" -> 2 [] pc = "transNode" -> 3 [] pc = "transEdge" -> 4
LawClass(law) == IF Len(law) = 1 THEN 1
                 ELSE IF \E i \in 1..Len(law) : law[i][1] = 0 THEN 3
                 ELSE IF \A i \in 1..Len(law) : law[i][1] = law[1][1] THEN 2
                 ELSE 4
Census == IF st.pc \in DecisionPcs
          THEN LET r == 4 * KindIdx(st.pc) + LawClass(st.law) IN TLCSet(r, TLCGet(r) + 1)
          ELSE IF st.pc = "done" THEN TLCSet(21, TLCGet(21) + 1)
          ELSE IF st.pc = "error" THEN TLCSet(22, TLCGet(22) + 1)
          ELSE IF st.pc = "draw" THEN TLCSet(23, TLCGet(23) + 1) ELSE TRUE
Report == PrintT(ToJson([census |-> [r \in 1..23 |-> TLCGet(r)]]))

Init == l = 1 /\ st = Settle(Init0) /\ dv = 0 /\ \A r \in 1..23 : TLCSet(r, 0)
Next == \E i \in 1..Len(T[l].kids) :
          LET c  == T[l].kids[i]
              ev == T[c].ev
              ok == st.pc \notin {"done", "error"} /\ EvOK(st, ev) IN
          /\ l' = c
          /\ \/ ok /\ st' = Step(st, ev) /\ dv' = dv
             \/ ~ok /\ st.pc \notin {"done", "error"} /\ Tolerable(st, ev) /\ st' = Apply(st, ev.k + 1) /\ dv' = dv + 1
Spec == Init /\ [][Next]_<<l, st, dv>>

Diagnose ==
   /\ LET f == FailedObs(st, T[l].obs) \cup FailedModel(st) IN
      f = {} \/ PrintT(ToJson([node |-> l, at |-> "obs", failed |-> f, pc |-> st.pc, err |-> st.err, dv |-> dv, natoms |-> Len(st.main.atoms)]))
   /\ \A i \in 1..Len(T[l].kids) :
        LET c == T[l].kids[i]
            f == IF st.pc \in {"done", "error"} THEN {"call-after-end:" \o st.pc} ELSE FailedEv(st, T[c].ev) IN
        f = {} \/ PrintT(ToJson([node |-> c, at |-> "event", failed |-> f, pc |-> st.pc, err |-> st.err, dv |-> dv,
                                 ncand |-> Len(st.cand), law |-> st.law, natoms |-> Len(st.main.atoms)]))
LeafSummary == T[l].kids = <<>> =>
   PrintT(ToJson([leaf |-> l, pc |-> st.pc, natoms |-> Len(st.main.atoms), ninst |-> NInst(st.main), blk |-> st.blk]))
=============================================================================
