---------------------------- MODULE GenerateTrace ----------------------------
(***************************************************************************)
(* Trace-TREE validation: the implementation's recorded choice tree (every *)
(* call on the random generator with candidates, probability vector and    *)
(* result; the projected molecule at every return; errors) must be a tree  *)
(* of behaviours of Generate.  One TLC state per tree node.                *)
(*                                                                         *)
(* T : Seq of nodes [kids : Seq(Nat), ev, obs]; node 1 is the root.        *)
(*   ev  = [kind |-> "root"]                                               *)
(*       | [kind |-> "choice", a : Seq(Nat) 0-based candidates,            *)
(*                            p : Seq(<<num, den>>), k : position taken]   *)
(*       | [kind |-> "draw", t : Int]   target in mDa                      *)
(*   obs = [kind |-> "none"] | [kind |-> "error"]                          *)
(*       | [kind |-> "final", atoms, bonds, open, full]                    *)
(*                                                                         *)
(* Nothing fails inside TLC: every node that cannot be explained is        *)
(* printed as a JSON diagnostic naming the clauses that do not hold; the   *)
(* harness maps clauses to properties.                                     *)
(***************************************************************************)
EXTENDS Generate, Json, IOUtils

T == JsonDeserialize(IOEnv.TRACE_FILE)

VARIABLES l, st, dv     \* tree node, model state, number of divergences on the path so far

Seq1(s) == [i \in 1..Len(s) |-> s[i] + 1]    \* 0-based indices of the code -> 1-based

(* ---- clauses about an event ev at state s ---- *)
CDecision(s, ev)   == ev.kind = "choice" => s.pc \in DecisionPcs
CDraw(s, ev)       == ev.kind = "draw" => s.pc = "draw"
CCandidates(s, ev) == (ev.kind = "choice" /\ s.pc \in DecisionPcs) => Seq1(ev.a) = s.cand
CLaw(s, ev)        == (ev.kind = "choice" /\ s.pc \in DecisionPcs) =>
                         /\ Len(ev.p) = Len(s.law)
                         /\ \A i \in 1..Len(ev.p) : RatEq(ev.p[i], s.law[i])
CPositive(s, ev)   == (ev.kind = "choice" /\ s.pc \in DecisionPcs /\ ev.k + 1 <= Len(s.law)) => Positive(s.law[ev.k + 1])
EvOK(s, ev) == CDecision(s, ev) /\ CDraw(s, ev) /\ CCandidates(s, ev) /\ CLaw(s, ev) /\ CPositive(s, ev)
FailedEv(s, ev) ==
   (IF CDecision(s, ev) THEN {} ELSE {"decision-not-expected:" \o s.pc}) \cup
   (IF CDraw(s, ev) THEN {} ELSE {"draw-not-expected:" \o s.pc}) \cup
   (IF CCandidates(s, ev) THEN {} ELSE {"candidates:" \o s.pc}) \cup
   (IF CLaw(s, ev) THEN {} ELSE {"law:" \o s.pc}) \cup
   (IF CPositive(s, ev) THEN {} ELSE {"zero-probability-option-taken:" \o s.pc})

Step(s, ev) == IF ev.kind = "draw" THEN ApplyDraw(s, ev.t) ELSE Apply(s, ev.k + 1)

(* ---- clauses about the observation at a node ---- *)
SeqToSet(s) == {s[i] : i \in 1..Len(s)}
NoH(a) == <<a[1], a[2], a[3], a[4]>>
FailedFinal(s, o) ==
   LET ma == MolAtoms(s.main)
       mb == MolBonds(s.main)
       shape == Len(o.atoms) = Len(ma) /\ \A i \in 1..Len(ma) : NoH(o.atoms[i]) = NoH(ma[i])
   IN (IF shape THEN {} ELSE {"atoms"}) \cup
      (IF shape /\ o.atoms # ma THEN {"hydrogens"} ELSE {}) \cup
      (IF SeqToSet(o.bonds) = mb /\ Len(o.bonds) = Cardinality(mb) THEN {} ELSE {"bonds"}) \cup
      (IF o.open = OpenAtoms(s.main) THEN {} ELSE {"open"}) \cup
      (IF o.full = (s.main.open = <<>>) THEN {} ELSE {"fully-generated-flag"}) \cup
      \* masses are integers in mDa; isotope-labelled atoms have more than three decimals: half a mDa per residue of rounding
      (IF 2 * (o.mass - s.main.mass) <= Len(s.main.res) /\ 2 * (s.main.mass - o.mass) <= Len(s.main.res) THEN {} ELSE {"mass"})
FailedObs(s, o) ==
   CASE o.kind = "none"  -> {}
     [] o.kind = "unsanitizable" -> {"sanitisation"}
     [] o.kind = "nontermination" -> {"nontermination"}
     [] o.kind = "error" -> IF s.pc = "error" THEN {} ELSE {"error-not-expected:" \o s.pc}
     [] o.kind = "final" ->
          IF s.pc # "done" THEN {"return-not-expected:" \o s.pc \o ":" \o s.err} \cup
                                (IF s.alt # <<>> /\ s.alt[1].pc = "done" THEN {"stop-rule-counterfactual-explains"} ELSE {})
          ELSE FailedFinal(s, o)

(* census of what the validated tree exercised: decision kind x law class, in TLC registers (workers 1) *)
KindIdx(pc) == CASE pc = "startEnd" -> 0 [] pc = "handOver" -> 1 [] pc = "pickOpen" -> 2 [] pc = "pickPartner" -> 3
                 [] pc = "pickListed" -> 4 [] pc = "reserve" -> 5 [] pc = "capOpen" -> 6 [] pc = "capEnd" -> 7
LawClass(law) == IF Len(law) = 1 THEN 1                                         \* forced
                 ELSE IF \E i \in 1..Len(law) : law[i][1] = 0 THEN 3            \* a zero next to a non-zero option
                 ELSE IF \A i \in 1..Len(law) : law[i][1] = law[1][1] THEN 2    \* uniform over >= 2
                 ELSE 4                                                         \* unequal non-zero weights
Census == IF st.pc \in DecisionPcs
          THEN LET r == 4 * KindIdx(st.pc) + LawClass(st.law) IN TLCSet(r, TLCGet(r) + 1)
          ELSE IF st.pc = "done" THEN TLCSet(33, TLCGet(33) + 1)
          ELSE IF st.pc = "error" THEN TLCSet(34, TLCGet(34) + 1)
          ELSE IF st.pc = "draw" THEN TLCSet(35, TLCGet(35) + 1) ELSE TRUE
Report == PrintT(ToJson([census |-> [r \in 1..35 |-> TLCGet(r)]]))

Init == l = 1 /\ st = Settle(Init0) /\ dv = 0 /\ \A r \in 1..35 : TLCSet(r, 0)

(* ---- following the implementation past a divergence (so that every property is judged on its own clauses) ---- *)
(* (a) the stop rule went the other way: the branch not taken explains the event                                  *)
AltOK(s, ev) == s.alt # <<>> /\ s.alt[1].pc \notin {"done", "error"} /\ EvOK(s.alt[1], ev)
(* (b) candidates or law differ, but the descriptor that was chosen exists: continue with that choice            *)
BaseLen(s) == CASE s.pc = "pickOpen" -> Len(s.main.open)
                [] s.pc \in {"reserve", "capOpen"} -> Len(s.work.open)
                [] s.pc = "handOver" -> Len(Tok[Elems[s.ei].tok].descs)
                [] s.pc \in {"startEnd", "capEnd"} -> Len(EndD(Elems[s.ei]))
                [] s.pc \in {"pickPartner", "pickListed"} -> Len(AllD(Elems[s.ei]))
                [] OTHER -> 0
Tolerable(s, ev) == /\ ev.kind = "choice" /\ s.pc \in DecisionPcs
                    /\ ev.k >= 0 /\ ev.k + 1 <= Len(ev.a)
                    /\ ev.a[ev.k + 1] + 1 <= BaseLen(s)
TolStep(s, ev) == Apply([s EXCEPT !.cand = <<ev.a[ev.k + 1] + 1>>, !.law = << <<1, 1>> >>], 1)

Next == \E i \in 1..Len(T[l].kids) :
          LET c  == T[l].kids[i]
              ev == T[c].ev
              ok == st.pc \notin {"done", "error"} /\ EvOK(st, ev) IN
          /\ l' = c
          /\ \/ ok /\ st' = Step(st, ev) /\ dv' = dv
             \/ ~ok /\ AltOK(st, ev) /\ st' = Step(st.alt[1], ev) /\ dv' = dv + 1
             \/ ~ok /\ ~AltOK(st, ev) /\ st.pc \notin {"done", "error"} /\ Tolerable(st, ev)
                    /\ st' = TolStep(st, ev) /\ dv' = dv + 1
Spec == Init /\ [][Next]_<<l, st, dv>>

(* C06 / C07 / C04 statements on the state that follows the implementation (they hold on every behaviour of the   *)
(* specification - GenerateMC - so they can only fail here after a divergence, or reveal a defect of the model)   *)
FailedModel(s) ==
   (IF ElementOrder(s) THEN {} ELSE {"model-ElementOrder"}) \cup
   (IF NeighbourBonds(s) THEN {} ELSE {"model-NeighbourBonds"}) \cup
   (IF TerminalsRespected(s) THEN {} ELSE {"model-TerminalsRespected"}) \cup
   (IF EndGroupsAreLeaves(s) THEN {} ELSE {"model-EndGroupsAreLeaves"}) \cup
   (IF StopRule(s) /\ GrowOnlyBelowTarget(s) THEN {} ELSE {"model-StopRule"}) \cup
   (IF BondsCompatible(s) /\ UsedOnce(s) THEN {} ELSE {"model-BondsCompatible"}) \cup
   (IF TreeInv(s) /\ Connected(s) /\ MassInv(s) THEN {} ELSE {"model-Tree"})

(* evaluated in every reached node; prints, never fails *)
Diagnose ==
   /\ LET f == FailedObs(st, T[l].obs) \cup FailedModel(st) IN
      f = {} \/ PrintT(ToJson([node |-> l, at |-> "obs", failed |-> f, pc |-> st.pc, err |-> st.err, dv |-> dv,
                               nres |-> Len(st.main.res), blocks |-> st.blocks]))
   /\ \A i \in 1..Len(T[l].kids) :
        LET c == T[l].kids[i]
            f0 == IF st.pc \in {"done", "error"} THEN {"call-after-end:" \o st.pc \o ":" \o st.err} ELSE FailedEv(st, T[c].ev)
            f == IF f0 # {} /\ AltOK(st, T[c].ev) THEN f0 \cup {"stop-rule-counterfactual-explains"} ELSE f0 IN
        f = {} \/ PrintT(ToJson([node |-> c, at |-> "event", failed |-> f, pc |-> st.pc, err |-> st.err, dv |-> dv,
                                 cand |-> st.cand, law |-> st.law, nres |-> Len(st.main.res), blocks |-> st.blocks]))

(* the model's invariants, on every state the implementation actually visited *)
IModel == dv = 0 => /\ TreeInv(st) /\ Connected(st) /\ MassInv(st) /\ BondsCompatible(st) /\ UsedOnce(st)
                    /\ LawNormalised(st) /\ StopRule(st) /\ GrowOnlyBelowTarget(st)

(* summary of what the validated tree exercised (printed at leaves) *)
LeafSummary == T[l].kids = <<>> =>
   PrintT(ToJson([leaf |-> l, pc |-> st.pc, err |-> st.err, nres |-> Len(st.main.res), nblocks |-> Len(st.blocks),
                  closed |-> (st.main.open = <<>>)]))
=============================================================================
