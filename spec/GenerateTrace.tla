---------------------------- MODULE GenerateTrace ----------------------------
(***************************************************************************)
(* Trace-TREE validation: the implementation's recorded choice tree (every *)
(* call on the random generator with candidates, probability vector and    *)
(* result; the projected molecule at every return; errors) must be a tree  *)
(* of behaviours of Generate.  One TLC state per tree node.                *)
(*                                                                         *)
(* T : Seq of nodes [kids : Seq(Nat), ev, obs]; node 1 is the root.        *)
(*   ev  = [kind |-> "root"]                                               *)
(*       | [kind |-> "choice", a : Seq(Nat) 0-based candidates,            *)
(*                            p : Seq(<<num, den>>), k : position taken]   *)
(*       | [kind |-> "draw", t : Int]   target in mDa                      *)
(*   obs = [kind |-> "none"] | [kind |-> "error"]                          *)
(*       | [kind |-> "final", atoms, bonds, open, full]                    *)
(*                                                                         *)
(* Nothing fails inside TLC: every node that cannot be explained is        *)
(* printed as a JSON diagnostic naming the clauses that do not hold; the   *)
(* harness maps clauses to properties.                                     *)
(***************************************************************************)
EXTENDS GenTraceOps, Json, IOUtils

T == JsonDeserialize(IOEnv.TRACE_FILE)

VARIABLES l, st, dv     \* tree node, model state, number of divergences on the path so far

(* census of what the validated tree exercised: decision kind x law class, in TLC registers (workers 1) *)
KindIdx(pc) == CASE pc = "startEnd" -> 0 [] pc = "handOver" -> 1 [] pc = "pickOpen" -> 2 [] pc = "pickPartner" -> 3
                 [] pc = "pickListed" -> 4 [] pc = "reserve" -> 5 [] pc = "capOpen" -> 6 [] pc = "capEnd" -> 7
LawClass(law) == IF Len(law) = 1 THEN 1                                         \* forced
                 ELSE IF \E i \in 1..Len(law) : law[i][1] = 0 THEN 3            \* a zero next to a non-zero option
                 ELSE IF \A i \in 1..Len(law) : law[i][1] = law[1][1] THEN 2    \* uniform over >= 2
                 ELSE 4                                                         \* unequal non-zero weights
Census == IF st.pc \in DecisionPcs
          THEN LET r == 4 * KindIdx(st.pc) + LawClass(st.law) IN TLCSet(r, TLCGet(r) + 1)
          ELSE IF st.pc = "done" THEN TLCSet(33, TLCGet(33) + 1)
          ELSE IF st.pc = "error" THEN TLCSet(34, TLCGet(34) + 1)
          ELSE IF st.pc = "draw" THEN TLCSet(35, TLCGet(35) + 1) ELSE TRUE
Report == PrintT(ToJson([census |-> [r \in 1..35 |-> TLCGet(r)]]))

Init == l = 1 /\ st = Settle(Init0) /\ dv = 0 /\ \A r \in 1..35 : TLCSet(r, 0)

Next == \E i \in 1..Len(T[l].kids) :
          LET c  == T[l].kids[i]
              ev == T[c].ev
              ok == st.pc \notin {"done", "error"} /\ EvOK(st, ev) IN
          /\ l' = c
          /\ \/ ok /\ st' = Step(st, ev) /\ dv' = dv
             \/ ~ok /\ AltOK(st, ev) /\ st' = Step(st.alt[1], ev) /\ dv' = dv + 1
             \/ ~ok /\ ~AltOK(st, ev) /\ st.pc \notin {"done", "error"} /\ Tolerable(st, ev)
                    /\ st' = TolStep(st, ev) /\ dv' = dv + 1
Spec == Init /\ [][Next]_<<l, st, dv>>

(* evaluated in every reached node; prints, never fails *)
Diagnose ==
   /\ LET f == FailedObs(st, T[l].obs) \cup FailedModel(st) IN
      f = {} \/ PrintT(ToJson([node |-> l, at |-> "obs", failed |-> f, pc |-> st.pc, err |-> st.err, dv |-> dv,
                               nres |-> Len(st.main.res), blocks |-> st.blocks]))
   /\ \A i \in 1..Len(T[l].kids) :
        LET c == T[l].kids[i]
            f0 == IF st.pc \in {"done", "error"} THEN {"call-after-end:" \o st.pc \o ":" \o st.err} ELSE FailedEv(st, T[c].ev)
            f == IF f0 # {} /\ AltOK(st, T[c].ev) THEN f0 \cup {"stop-rule-counterfactual-explains"} ELSE f0 IN
        f = {} \/ PrintT(ToJson([node |-> c, at |-> "event", failed |-> f, pc |-> st.pc, err |-> st.err, dv |-> dv,
                                 cand |-> st.cand, law |-> st.law, nres |-> Len(st.main.res), blocks |-> st.blocks]))

(* the model's invariants, on every state the implementation actually visited *)
IModel == dv = 0 => /\ TreeInv(st) /\ Connected(st) /\ MassInv(st) /\ BondsCompatible(st) /\ UsedOnce(st)
                    /\ LawNormalised(st) /\ StopRule(st) /\ GrowOnlyBelowTarget(st)

(* summary of what the validated tree exercised (printed at leaves) *)
LeafSummary == T[l].kids = <<>> =>
   PrintT(ToJson([leaf |-> l, pc |-> st.pc, err |-> st.err, nres |-> Len(st.main.res), nblocks |-> Len(st.blocks),
                  closed |-> (st.main.open = <<>>)]))
=============================================================================
