------------------------------ MODULE TokenScan ------------------------------
(***************************************************************************)
(* C02 / C15 / C01, token level.  A writer of token texts, symbol by       *)
(* symbol, whose state IS the meaning of the text written so far           *)
(* ("exactly as if the descriptor were an atom written at that position    *)
(* of the SMILES"): atoms, bonds between them, and for every bond          *)
(* descriptor the atom it is attached to and the bond order it will form.  *)
(*                                                                         *)
(* Symbols:  "A" atom   "(" ")" branch   "=" "#" bond   "R" open a ring    *)
(* bond at the current atom   "r" close the most recent open ring bond     *)
(* "D" bond descriptor.                                                    *)
(* Enabling conditions are SMILES / BigSMILES well-formedness: balanced    *)
(* non-empty branches, a bond symbol is followed by an atom or descriptor, *)
(* a descriptor binds exactly one atom (first position, or last position   *)
(* of the chain / of a branch), valence <= 4 per atom, no ring bond        *)
(* duplicating a bond.                                                     *)
(* TLC enumerates ALL texts up to length L; complete ones are exported.    *)
(*                                                                         *)
(* Breaking actions (C15) write ONE ill-formed symbol and are recorded in  *)
(* `broken`; a text with broken # "" must be rejected by the parser.       *)
(***************************************************************************)
EXTENDS Naturals, Integers, Sequences, FiniteSets, TLC, Json

CONSTANTS L,          \* maximal number of symbols
          Breaking    \* BOOLEAN: are breaking actions enabled

VARIABLES text,      \* Seq of symbols
          stack,     \* Seq of atom indices (1-based; 0 = no atom yet): stack[Len] is the atom the next symbol bonds to
          natoms,
          pend,      \* pending bond order (1 = none written)
          descs,     \* Seq of [atom, ord]; atom = 0 while a leading descriptor waits for the first atom
          bonds,     \* set of <<a, b, ord>> with a < b
          val,       \* val[a] = bond orders used at atom a (incl. descriptors)
          rings,     \* Seq of atoms with an open ring bond
          prev,      \* kind of the previous symbol: "start","A","(",")","=","D","LD" (leading descriptor),"R","r"
          broken     \* "" or the rule violated by a breaking action
vars == <<text, stack, natoms, pend, descs, bonds, val, rings, prev, broken>>

Top == stack[Len(stack)]
MaxVal == 4
Room(n) == Len(text) + n <= L      \* n more symbols fit

Init == /\ text = <<>> /\ stack = <<0>> /\ natoms = 0 /\ pend = 1 /\ descs = <<>> /\ bonds = {}
        /\ val = <<>> /\ rings = <<>> /\ prev = "start" /\ broken = ""

(* how many symbols are still needed to complete the text from the current state (pruning only) *)
Need == (Len(stack) - 1) + Len(rings)

(* ---- atom ---- *)
AtomOK == /\ prev \in {"start", "A", "(", ")", "=", "LD", "R", "r"}
          /\ (Top # 0 => val[Top] + pend <= MaxVal)
          /\ pend <= MaxVal
Atom == /\ Room(1 + Need) /\ AtomOK /\ broken = ""
        /\ text' = Append(text, "A")
        /\ natoms' = natoms + 1
        /\ stack' = [stack EXCEPT ![Len(stack)] = natoms + 1]
        /\ LET lead == Len(descs) = 1 /\ descs[1].atom = 0       \* a leading descriptor binds to this first atom
               fromTop == IF Top # 0 THEN pend ELSE 0
               fromLead == IF lead THEN descs[1].ord ELSE 0
           IN /\ descs' = IF lead THEN <<[atom |-> natoms + 1, ord |-> IF prev = "=" THEN pend ELSE 1]>> ELSE descs
              /\ bonds' = IF Top # 0 THEN bonds \cup {<<Top, natoms + 1, pend>>} ELSE bonds
              /\ val' = IF Top # 0
                        THEN Append([val EXCEPT ![Top] = @ + pend], pend)
                        ELSE Append(val, IF lead THEN (IF prev = "=" THEN pend ELSE 1) ELSE 0)
        /\ pend' = 1 /\ prev' = "A" /\ UNCHANGED <<rings, broken>>

(* ---- branches ---- *)
Open == /\ Room(3 + Need) /\ prev \in {"A", ")", "R", "r"} /\ Top # 0 /\ val[Top] < MaxVal /\ broken = ""
        /\ text' = Append(text, "(") /\ stack' = Append(stack, Top)
        /\ prev' = "(" /\ UNCHANGED <<natoms, pend, descs, bonds, val, rings, broken>>
Close == /\ Room(1 + Need - 1) /\ Len(stack) > 1 /\ prev \in {"A", "D", ")", "r"} /\ broken = ""
         /\ text' = Append(text, ")") /\ stack' = SubSeq(stack, 1, Len(stack) - 1)
         /\ prev' = ")" /\ UNCHANGED <<natoms, pend, descs, bonds, val, rings, broken>>

(* ---- bond symbols ---- *)
Bond(sym, ord) ==
        /\ Room(2 + Need) /\ prev \in {"A", "(", ")", "LD", "r"} /\ broken = ""
        /\ (Top # 0 => val[Top] + ord <= MaxVal)
        /\ text' = Append(text, sym) /\ pend' = ord
        /\ prev' = "=" /\ UNCHANGED <<stack, natoms, descs, bonds, val, rings, broken>>
Double == Bond("=", 2)
Triple == Bond("#", 3)

(* ---- ring bonds (single) ---- *)
RingOpen == /\ Room(3 + Need) /\ prev \in {"A", "r"} /\ val[Top] < MaxVal /\ Len(rings) < 2 /\ broken = ""
            /\ \A i \in 1..Len(rings) : rings[i] # Top
            /\ text' = Append(text, "R") /\ rings' = Append(rings, Top)
            /\ val' = [val EXCEPT ![Top] = @ + 1]
            /\ prev' = "R" /\ UNCHANGED <<stack, natoms, pend, descs, bonds, broken>>
RingClose == /\ Room(1 + Need - 1) /\ prev \in {"A"} /\ rings # <<>> /\ broken = ""
             /\ LET o == rings[Len(rings)] IN
                /\ o # Top /\ val[Top] < MaxVal
                /\ \A b \in bonds : ~(b[1] = o /\ b[2] = Top)        \* not already bonded (o < Top always)
                /\ Top - o >= 2                                      \* at least a three-membered ring
                /\ bonds' = bonds \cup {<<o, Top, 1>>}
                /\ val' = [val EXCEPT ![Top] = @ + 1]
             /\ text' = Append(text, "r") /\ rings' = SubSeq(rings, 1, Len(rings) - 1)
             /\ prev' = "r" /\ UNCHANGED <<stack, natoms, pend, descs, broken>>

(* ---- descriptors ---- *)
LeadDesc == /\ Room(2) /\ prev = "start" /\ broken = ""
            /\ text' = Append(text, "D") /\ descs' = <<[atom |-> 0, ord |-> 1]>>
            /\ prev' = "LD" /\ UNCHANGED <<stack, natoms, pend, bonds, val, rings, broken>>
Desc == /\ Room(1 + Need) /\ prev \in {"A", "(", ")", "=", "r"} /\ Top # 0 /\ broken = ""
        /\ val[Top] + pend <= MaxVal
        /\ text' = Append(text, "D")
        /\ descs' = Append(descs, [atom |-> Top, ord |-> pend])
        /\ val' = [val EXCEPT ![Top] = @ + pend]
        /\ pend' = 1 /\ prev' = "D" /\ UNCHANGED <<stack, natoms, bonds, rings, broken>>

(* ---- breaking actions (one rule violated; the text is finished afterwards or continues normally) ---- *)
BreakAtomAfterDesc ==      \* a descriptor between two atoms
        /\ Breaking /\ broken = "" /\ Room(1 + Need) /\ prev = "D"
        /\ text' = Append(text, "A") /\ broken' = "descriptor-between-two-atoms"
        /\ prev' = "A" /\ UNCHANGED <<stack, natoms, pend, descs, bonds, val, rings>>
BreakExtraClose ==         \* a closing parenthesis that closes nothing
        /\ Breaking /\ broken = "" /\ Room(1 + Need) /\ Len(stack) = 1 /\ prev \in {"A", "D", ")"}
        /\ text' = Append(text, ")") /\ broken' = "unbalanced-close"
        /\ prev' = ")" /\ UNCHANGED <<stack, natoms, pend, descs, bonds, val, rings>>
BreakMissingClose ==       \* a branch that is never closed: drop one level silently
        /\ Breaking /\ broken = "" /\ Len(stack) > 1 /\ prev \in {"A", "D", ")"}
        /\ stack' = SubSeq(stack, 1, Len(stack) - 1) /\ broken' = "unbalanced-open"
        /\ UNCHANGED <<text, natoms, pend, descs, bonds, val, rings, prev>>

Next == Atom \/ Open \/ Close \/ Double \/ Triple \/ RingOpen \/ RingClose \/ LeadDesc \/ Desc
        \/ BreakAtomAfterDesc \/ BreakExtraClose \/ BreakMissingClose
Spec == Init /\ [][Next]_vars

(* ---- complete texts ---- *)
Complete == /\ Len(stack) = 1 /\ natoms > 0 /\ rings = <<>>
            /\ prev \in {"A", "D", ")", "r"}

(* ---- model theorems ---- *)
ValenceOK == \A a \in 1..Len(val) : val[a] <= MaxVal
DescsBound == Complete => \A i \in 1..Len(descs) : descs[i].atom \in 1..natoms
BondsSane == \A b \in bonds : b[1] < b[2] /\ b[2] <= natoms
Connected1 == Complete /\ broken = "" => Cardinality(bonds) >= natoms - 1

Export == Complete => PrintT(ToJson([text |-> text, natoms |-> natoms, descs |-> descs, val |-> val,
                                     bonds |-> bonds, broken |-> broken]))
=============================================================================
