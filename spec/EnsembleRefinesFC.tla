-------------------------- MODULE EnsembleRefinesFC --------------------------
(***************************************************************************)
(* C13 as a refinement: the ensemble machine (EnsembleMC, with two history *)
(* variables) implements FirstCrossing with Strict = FALSE ("brings the    *)
(* accumulated mass to the system mass"): members are items, the system    *)
(* mass is the limit.  The machine starts inside its only accumulation     *)
(* (its initial state is the state after FirstCrossing's Start(SysMass)).  *)
(***************************************************************************)
EXTENDS EnsembleMC

VARIABLES hprev, hdone          \* history: accumulated mass before the last member; the finished accumulation
hvars == <<es, hprev, hdone>>

HInit == Init /\ hprev = 0 /\ hdone = <<>>
HNext == /\ Next
         /\ hprev' = IF es'.n = es.n + 1 THEN es.acc ELSE hprev
         /\ hdone' = IF es'.pc = "end" /\ es.pc # "end"
                     THEN Append(hdone, [acc |-> es'.acc, prev |-> es.acc, n |-> es'.n, limit |-> SysMass, early |-> FALSE])
                     ELSE hdone
HSpec == HInit /\ [][HNext]_hvars /\ WF_hvars(HNext)

Running == es.pc \in {"pick", "member"}
FC == INSTANCE FirstCrossing WITH Strict <- FALSE,
                                  phase <- IF Running THEN "run" ELSE "idle",
                                  acc <- IF Running THEN es.acc ELSE 0,
                                  prev <- IF Running THEN hprev ELSE 0,
                                  n <- IF Running THEN es.n ELSE 0,
                                  limit <- IF Running THEN SysMass ELSE 0,
                                  done <- hdone

FCStep == \/ FC!Add(es'.acc - es.acc)
          \/ FC!AddFinish(es'.acc - es.acc, FALSE)
          \/ UNCHANGED FC!fcvars
ImplementsFirstCrossing == [][es'.pc # "error" => FCStep]_hvars
StartsInsideAccumulation == (es = EInit) => (Running /\ es.acc = 0 /\ es.n = 0 /\ hdone = <<>>)
FCTheorem == FC!StoppedAtFirstCrossing
=============================================================================
