----------------------------- MODULE EnsembleMCH -----------------------------
(***************************************************************************)
(* The ensemble machine with the history of its decisions (component       *)
(* picks, decisions and targets of every member).  TLC exports the history *)
(* of every terminal state (exhaustive under VIEW, or simulation mode);    *)
(* the harness steps System.generator through each of them and judges what *)
(* the code did with EnsembleTrace (specification -> code).                *)
(***************************************************************************)
EXTENDS EnsembleMC, Json

VARIABLE hist
hvars == <<es, hist>>

HInit == Init /\ hist = <<>>
HPick == /\ es.pc = "pick"
         /\ \E c \in 1..N : Comps[c].frac > 0 /\ es' = Pick(es, c) /\ hist' = Append(hist, <<"c", c - 1>>)
HChoice == /\ es.pc = "member" /\ Member.pc \in G(es.k)!DecisionPcs
           /\ \E k \in 1..Len(Member.cand) : Positive(Member.law[k]) /\ es' = [es EXCEPT !.g = <<G(es.k)!Apply(Member, k)>>]
                                             /\ hist' = Append(hist, <<"c", k - 1>>)
HDraw == /\ MemberDraw /\ hist' = Append(hist, <<"d", Comps[es.k].tgt[Member.ei]>>)
HSilent == (MemberFails \/ Yield) /\ UNCHANGED hist
HNext == HPick \/ HChoice \/ HDraw \/ HSilent
HSpec == HInit /\ [][HNext]_hvars

HView == es
HExport == es.pc \in {"end", "error"} => PrintT(ToJson([pc |-> es.pc, hist |-> hist, n |-> es.n, acc |-> es.acc]))
=============================================================================
