------------------------------- MODULE AGCheck -------------------------------
(* C17: evaluate the atom graph of one instance, check its theorems, export it. One state. *)
EXTENDS AtomGraph, Json
VARIABLE done
Init == done = FALSE
Next == done = FALSE /\ done' = TRUE
Spec == Init /\ [][Next]_done
Theorems == NothingLeavesEndGroups /\ StaticSymmetric
Export == done \/ PrintT(ToJson([nnodes |-> NNodes, attrs |-> NodeAttr, edges |-> Edges]))
=============================================================================
