--------------------------- MODULE AtomGenMachine ---------------------------
(***************************************************************************)
(* C18.  The machine that generates a molecule from a stochastic atom      *)
(* graph (graph_generate.AtomGraph.generate), one decision per call on the *)
(* user-supplied random generator, structured like the code:               *)
(*                                                                         *)
(*   fill        complete the residue of the atom just added (static       *)
(*               edges, depth-first from that atom)                        *)
(*   stochNode   pick the atom that reacts next, in proportion to the sum  *)
(*               of its stochastic weights                                 *)
(*   termEdge    provisional termination of every OTHER atom that still    *)
(*               has termination edges (lowest atom first): pick the end   *)
(*               group, add it whole, close it                             *)
(*   draw        the Schulz-Zimm target of this (Mw, Mn), drawn once per   *)
(*               generation and key                                        *)
(*   compare     terminated block mass < target: undo the termination and  *)
(*               react (stochEdge); otherwise keep the termination, close  *)
(*               the block                                                 *)
(*   transNode / transEdge   leave the block along a transition edge; no   *)
(*               transition edge left: done                                *)
(*                                                                         *)
(* The graph is a CONSTANT: the machine is defined for any stochastic atom *)
(* graph, the harness passes the graph object the implementation was given *)
(*   GN   : Seq of [z, q, m, key]   node: element, charge, mass (1e-4 Da), *)
(*                                  index of its (Mw, Mn) pair             *)
(*   GOut : Seq of Seq of [v, sw, tw, rw, stat, ord]   out-edges of node n   *)
(*          in the graph's iteration order: target, stochastic /           *)
(*          termination / transition weight (scaled integers), static      *)
(*          flag, bond order                                               *)
(*   NKeys: number of distinct (Mw, Mn) pairs                              *)
(***************************************************************************)
EXTENDS Notation, TLC

CONSTANTS GN, GOut, NKeys

NG == Len(GN)
InSeq(x, s) == \E i \in 1..Len(s) : s[i] = x

SList(n) == SelectSeq(GOut[n], LAMBDA e : e.sw # 0)
TList(n) == SelectSeq(GOut[n], LAMBDA e : e.tw # 0)
RList(n) == SelectSeq(GOut[n], LAMBDA e : e.rw # 0)
StList(n) == SelectSeq(GOut[n], LAMBDA e : e.stat # 0)
SumF(s, f(_)) == SumSeq([i \in 1..Len(s) |-> f(s[i])])
SW(n) == SumF(SList(n), LAMBDA e : e.sw)
RW(n) == SumF(RList(n), LAMBDA e : e.rw)

(* ---------- the static graph: undirected, first static edge met per pair, adjacency in insertion order ---------- *)
StaticSeq ==
   LET F[n \in 0..NG] == IF n = 0 THEN <<>>
                         ELSE F[n-1] \o [k \in 1..Len(StList(n)) |-> <<n, StList(n)[k].v, StList(n)[k].ord>>]
   IN F[NG]
SamePair(x, y) == (x[1] = y[1] /\ x[2] = y[2]) \/ (x[1] = y[2] /\ x[2] = y[1])
StaticPairs ==     \* one entry per bonded pair, in the order the pairs are first met
   LET s == StaticSeq
       F[k \in 0..Len(s)] == IF k = 0 THEN <<>>
                             ELSE LET p == F[k-1] IN
                                  IF \E j \in 1..Len(p) : SamePair(p[j], s[k]) THEN p ELSE Append(p, s[k])
   IN F[Len(s)]
SAdj ==
   LET s == StaticPairs
       F[k \in 0..Len(s)] == IF k = 0 THEN [n \in 1..NG |-> <<>>]
                             ELSE LET u == s[k][1]  v == s[k][2]  g == F[k-1]
                                      g1 == IF InSeq(v, g[u]) THEN g ELSE [g EXCEPT ![u] = Append(@, v)]
                                  IN IF InSeq(u, g1[v]) THEN g1 ELSE [g1 EXCEPT ![v] = Append(@, u)]
   IN F[Len(s)]

(* depth-first preorder from n over the static graph: the order in which the atoms of a residue are created *)
RECURSIVE Visit(_, _)
Visit(n, seen) ==
   LET adj == SAdj[n]
       F[k \in 0..Len(adj)] == IF k = 0 THEN seen
                               ELSE LET p == F[k-1] IN
                                    IF InSeq(adj[k], p) THEN p ELSE Visit(adj[k], Append(p, adj[k]))
   IN F[Len(adj)]
PreTab == [n \in 1..NG |-> Visit(n, <<n>>)]
Pre(n) == PreTab[n]
CompOf(n) == LET p == Pre(n) IN CHOOSE m \in 1..NG : InSeq(m, p) /\ \A j \in 1..Len(p) : m <= p[j]    \* residue type = least node of the token
CompNodes(n) == {Pre(n)[j] : j \in 1..Len(Pre(n))}

(* ---------- start node: the first node from which every node can be reached along edges of any kind ---------- *)
RECURSIVE ReachFrom(_, _)
ReachFrom(front, seen) ==
   IF front = {} THEN seen
   ELSE LET nxt == UNION {{GOut[n][k].v : k \in 1..Len(GOut[n])} : n \in front} \ seen
        IN ReachFrom(nxt, seen \cup nxt)
HasStart == \E n \in 1..NG : ReachFrom({n}, {n}) = 1..NG
Start == CHOOSE n \in 1..NG : ReachFrom({n}, {n}) = 1..NG /\ \A m \in 1..(n-1) : ReachFrom({m}, {m}) # 1..NG

(* ---------- state ---------- *)
(* body: atoms : Seq of [sn, inst, s, t, r]  graph node, residue instance, lists still available                 *)
(*       bonds : Seq of <<i, j, order>>       in creation order                                                   *)
(*       mass  : mass added to the current block (1e-4 Da)                                                        *)
Atom(n, inst, f) == [sn |-> n, inst |-> inst, s |-> f, t |-> f, r |-> f]
NInst(b) == IF b.atoms = <<>> THEN 0 ELSE b.atoms[Len(b.atoms)].inst      \* instances are numbered in creation order
AddAtom(b, n, inst, f) == [b EXCEPT !.atoms = Append(@, Atom(n, inst, f)), !.mass = @ + GN[n].m]

(* complete the residue of atom i: remaining nodes of its token in depth-first order, then the token's internal bonds *)
Fill(b, i, f) ==
   LET src   == b.atoms[i].sn
       order == Pre(src)
       base  == Len(b.atoms)
       pos(n) == IF n = src THEN i ELSE base + (CHOOSE j \in 2..Len(order) : order[j] = n) - 1
       atoms2 == b.atoms \o [j \in 1..(Len(order) - 1) |-> Atom(order[j+1], b.atoms[i].inst, f)]
       pairs == SelectSeq(StaticPairs, LAMBDA x : InSeq(x[1], order))
       F[j \in 0..(Len(order) - 1)] == IF j = 0 THEN 0 ELSE F[j-1] + GN[order[j+1]].m
   IN [atoms |-> atoms2,
       bonds |-> b.bonds \o [k \in 1..Len(pairs) |-> <<pos(pairs[k][1]), pos(pairs[k][2]), pairs[k][3]>>],
       mass  |-> b.mass + F[Len(order) - 1]]

ClearAtom(a) == [a EXCEPT !.s = FALSE, !.t = FALSE, !.r = FALSE]

Body0 == [atoms |-> <<>>, bonds |-> <<>>, mass |-> 0]
Init0 == [pc |-> "fill", main |-> AddAtom(Body0, Start, 1, TRUE), saved |-> <<>>, cur |-> 1, sel |-> 0, tsel |-> 0,
          cand |-> <<>>, law |-> <<>>, drawn |-> [k \in 1..NKeys |-> FALSE], tgt |-> [k \in 1..NKeys |-> 0],
          blk |-> 1, units |-> 0, err |-> ""]

DecisionPcs == {"stochNode", "termEdge", "stochEdge", "transNode", "transEdge"}
Err(st, why) == [st EXCEPT !.pc = "error", !.err = why, !.cand = <<>>, !.law = <<>>]
Decide(st, pc, cands, ws) ==
   IF cands = <<>> THEN Err(st, "empty-candidates:" \o pc)
   ELSE [st EXCEPT !.pc = pc, !.cand = cands, !.law = Law(ws)]
Idx(n) == [i \in 1..n |-> i]

(* first atom other than the one that is to react which still has termination edges *)
TermAtoms(st) == {i \in 1..Len(st.main.atoms) : i # st.sel /\ st.main.atoms[i].t /\ TList(st.main.atoms[i].sn) # <<>>}

RECURSIVE Settle(_)
Settle(st) ==
  CASE st.pc = "fill" ->
         Settle([st EXCEPT !.main = Fill(st.main, st.cur, TRUE), !.pc = "nextStoch"])
    [] st.pc = "nextStoch" ->
         LET A == st.main.atoms
             c == SelectSeq(Idx(Len(A)), LAMBDA i : A[i].s /\ SW(A[i].sn) > 0)
         IN IF c = <<>> THEN Settle([st EXCEPT !.pc = "endBlock"])
            ELSE Decide(st, "stochNode", c, [i \in 1..Len(c) |-> SW(A[c[i]].sn)])
    [] st.pc = "term" ->
         LET ta == TermAtoms(st) IN
         IF ta = {} THEN Settle([st EXCEPT !.pc = "compare"])
         ELSE LET i == CHOOSE i \in ta : \A j \in ta : i <= j
                  tl == TList(st.main.atoms[i].sn)
              IN Decide([st EXCEPT !.tsel = i], "termEdge", Idx(Len(tl)), [k \in 1..Len(tl) |-> tl[k].tw])
    [] st.pc = "compare" ->
         LET key == GN[st.main.atoms[st.sel].sn].key IN
         IF ~st.drawn[key] THEN [st EXCEPT !.pc = "draw", !.cand = <<>>, !.law = <<>>]
         ELSE IF st.main.mass < st.tgt[key]
              THEN \* the provisional termination is undone and the chosen atom reacts
                   LET sl == SList(st.saved[1].atoms[st.sel].sn) IN
                   Decide([st EXCEPT !.main = st.saved[1], !.saved = <<>>], "stochEdge", Idx(Len(sl)), [k \in 1..Len(sl) |-> sl[k].sw])
              ELSE \* the termination stays; nothing reacts or terminates any more in this block
                   Settle([st EXCEPT !.main.atoms = [i \in 1..Len(@) |-> [@[i] EXCEPT !.s = FALSE, !.t = FALSE]],
                                     !.saved = <<>>, !.pc = "endBlock"])
    [] st.pc = "endBlock" ->
         LET A == st.main.atoms IN
         Decide([st EXCEPT !.main.mass = 0, !.blk = @ + 1, !.units = 0], "transNode", Idx(Len(A)),
                [i \in 1..Len(A) |-> IF A[i].r THEN RW(A[i].sn) ELSE 0])
    [] OTHER -> st

(* add the residue entered through graph node v from atom `from`: its first atom cannot react, the rest is filled with flag f *)
Link(b, from, v, ord) ==
   LET b1 == AddAtom(b, v, NInst(b) + 1, FALSE)
       new == Len(b1.atoms)
   IN [b1 EXCEPT !.bonds = Append(@, <<from, new, ord>>)]

ApplyRaw(st, k) ==
  LET c == st.cand[k]
      A == st.main.atoms IN
  CASE st.pc = "stochNode" ->
         Settle([st EXCEPT !.sel = c, !.saved = <<st.main>>, !.pc = "term", !.cand = <<>>, !.law = <<>>])
    [] st.pc = "termEdge" ->
         LET i  == st.tsel
             e  == TList(A[i].sn)[c]
             b1 == Link(st.main, i, e.v, e.ord)
             b2 == Fill(b1, Len(b1.atoms), FALSE)          \* the end group whole, closed
             b3 == [b2 EXCEPT !.atoms[i] = ClearAtom(@)]
         IN Settle([st EXCEPT !.main = b3, !.pc = "term", !.cand = <<>>, !.law = <<>>])
    [] st.pc = "stochEdge" ->
         LET i  == st.sel
             e  == SList(A[i].sn)[c]
             b0 == [st.main EXCEPT !.atoms[i] = ClearAtom(@)]
             b1 == Link(b0, i, e.v, e.ord)
         IN Settle([st EXCEPT !.main = b1, !.cur = Len(b1.atoms), !.pc = "fill", !.units = @ + 1, !.cand = <<>>, !.law = <<>>])
    [] st.pc = "transNode" ->
         IF ~A[c].r \/ RList(A[c].sn) = <<>> THEN [st EXCEPT !.pc = "done", !.cand = <<>>, !.law = <<>>]
         ELSE LET rl == RList(A[c].sn) IN
              Decide([st EXCEPT !.sel = c], "transEdge", Idx(Len(rl)), [j \in 1..Len(rl) |-> rl[j].rw])
    [] st.pc = "transEdge" ->
         LET i  == st.sel
             e  == RList(A[i].sn)[c]
             b0 == [st.main EXCEPT !.atoms = [j \in 1..Len(@) |-> [@[j] EXCEPT !.r = FALSE]]]
             b1 == Link(b0, i, e.v, e.ord)
         IN Settle([st EXCEPT !.main = b1, !.cur = Len(b1.atoms), !.pc = "fill", !.cand = <<>>, !.law = <<>>])

Apply(st, k) == ApplyRaw(st, k)
DrawKey(st) == GN[st.main.atoms[st.sel].sn].key
ApplyDraw(st, t) == LET key == DrawKey(st) IN
   Settle([st EXCEPT !.drawn[key] = TRUE, !.tgt[key] = t, !.pc = "compare"])

(* ---------- C18 on a body ---------- *)
Insts(b) == 1..NInst(b)
AtomsOf(b, x) == {i \in 1..Len(b.atoms) : b.atoms[i].inst = x}
WholeResidues(b) ==
   \A x \in Insts(b) :
      LET as == AtomsOf(b, x)
          n0 == b.atoms[CHOOSE i \in as : TRUE].sn IN
      /\ {b.atoms[i].sn : i \in as} = CompNodes(n0)
      /\ Cardinality(as) = Cardinality(CompNodes(n0))
Norm3(x) == IF x[1] < x[2] THEN x ELSE <<x[2], x[1], x[3]>>
BondSet(b) == {Norm3(b.bonds[k]) : k \in 1..Len(b.bonds)}
InternalBondsExact(b) ==
   \A x \in Insts(b) :
      LET as  == AtomsOf(b, x)
          at(n) == CHOOSE i \in as : b.atoms[i].sn = n
          n0  == b.atoms[CHOOSE i \in as : TRUE].sn
          want == {Norm3(<<at(p[1]), at(p[2]), p[3]>>) : p \in {StaticPairs[k] : k \in {k \in 1..Len(StaticPairs) : StaticPairs[k][1] \in CompNodes(n0)}}}
          got  == {e \in BondSet(b) : e[1] \in as /\ e[2] \in as}
      IN want = got
Links(b) == {e \in BondSet(b) : b.atoms[e[1]].inst # b.atoms[e[2]].inst}
NonStaticEdge(u, v, ord) == \E k \in 1..Len(GOut[u]) : LET e == GOut[u][k] IN e.v = v /\ e.ord = ord /\ (e.sw # 0 \/ e.tw # 0 \/ e.rw # 0)
LinksAlongEdges(b) == \A e \in Links(b) :
   NonStaticEdge(b.atoms[e[1]].sn, b.atoms[e[2]].sn, e[3]) \/ NonStaticEdge(b.atoms[e[2]].sn, b.atoms[e[1]].sn, e[3])
ResidueTree(b) ==
   /\ Cardinality(Links(b)) = NInst(b) - 1
   /\ Cardinality(BondSet(b)) = Len(b.bonds)
   /\ \A x \in Insts(b) : x > 1 => \E e \in Links(b) : LET p == b.atoms[e[1]].inst  q == b.atoms[e[2]].inst IN
                                        (p = x /\ q < x) \/ (q = x /\ p < x)
C18Body(b) == WholeResidues(b) /\ InternalBondsExact(b) /\ LinksAlongEdges(b) /\ ResidueTree(b)
(* at a decision point every residue is complete *)
C18State(st) == st.pc \in DecisionPcs \cup {"done", "draw"} => C18Body(st.main)
LawNormalised(st) == st.law # <<>> => LawWellFormed(st.law) /\ Len(st.law) = Len(st.cand)
=============================================================================
