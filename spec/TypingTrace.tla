----------------------------- MODULE TypingTrace -----------------------------
(***************************************************************************)
(* Recorded typing calls against Typing: for every call the match relation *)
(* (rule -> atoms, computed with RDKit from the harness's own reading of   *)
(* the rule file), the atoms' elements, and what the implementation        *)
(* returned (per atom the set of types whose parameters equal the returned *)
(* parameter set; empty = no parameter set).  One TLC state per call.      *)
(*   Obs[i] = [n, match : Seq of Seq of atoms, kind, got : Seq of Seq of   *)
(*            type ids, z : Seq of atomic numbers, ref, perm]               *)
(* TypeMass[t] (1e-3 Da) and ElemMass[z] are constants of the rule files.  *)
(***************************************************************************)
EXTENDS Typing, Json, IOUtils

CONSTANTS TypeMass, ElemMass

Obs == JsonDeserialize(IOEnv.TRACE_FILE)
VARIABLE i
Init == i = 1
Next == i < Len(Obs) /\ i' = i + 1
Spec == Init /\ [][Next]_i

SeqSet(s) == {s[k] : k \in 1..Len(s)}
MOf(o) == [r \in 1..NR |-> SeqSet(o.match[r])]
Abs(x) == IF x < 0 THEN 0 - x ELSE x
Failed(o) ==
   LET M == MOf(o)
       w == Outcome(M, o.n) IN
   (IF o.kind = w.kind THEN {} ELSE {"outcome:" \o w.kind}) \cup
   (IF \A a \in 1..o.n : (a \in DOMAIN w.types) = (o.got[a] # <<>>) THEN {} ELSE {"typed-atoms"}) \cup
   (IF \A a \in DOMAIN w.types : o.got[a] = <<>> \/ w.types[a] \in SeqSet(o.got[a]) THEN {} ELSE {"type-of-atom"}) \cup
   \* C20's own clause, on what the specification assigns: the parameter set's mass is the mass of the atom's element (0.02 Da)
   (IF \A a \in DOMAIN w.types : Abs(TypeMass[w.types[a]] - ElemMass[o.z[a]]) <= 20 THEN {} ELSE {"spec-type-mass-is-not-the-element's"}) \cup
   \* numbering: observation o is the molecule of observation o.ref with atom a renumbered to o.perm[a]
   (IF o.ref = 0 \/ (Obs[o.ref].kind = o.kind /\ \A a \in 1..o.n : o.got[o.perm[a]] = Obs[o.ref].got[a]) THEN {} ELSE {"numbering"})
Diagnose == LET f == Failed(Obs[i]) IN f = {} \/ PrintT(ToJson([obs |-> i, failed |-> f]))
=============================================================================
