--------------------------- MODULE FirstCrossing ---------------------------
(***************************************************************************)
(* The accumulation rule shared by C07 (a stochastic object grows until    *)
(* the mass it has added exceeds its target) and C13 (an ensemble is       *)
(* iterated until the accumulated mass reaches the system mass):           *)
(*                                                                         *)
(*   items are added one at a time; the first one always; a further one    *)
(*   only while the limit has not been reached; the accumulation is        *)
(*   finished only once the limit has been reached - hence exactly at the  *)
(*   FIRST partial sum that reaches it - or "early" (nothing left to add). *)
(*                                                                         *)
(* Strict = TRUE : reached means  acc >  limit  (C07: "exceeds")           *)
(* Strict = FALSE: reached means  acc >= limit  (C13: "brings it to ...")  *)
(* Amounts are integers (milli-Dalton); limits are arbitrary integers      *)
(* (a drawn target may be negative).  The theorem (FirstCrossingProofs)    *)
(* is proved for all amounts and limits; GenerateMC and EnsembleMC are     *)
(* checked by TLC to implement this machine under a refinement mapping.    *)
(***************************************************************************)
EXTENDS Integers, Sequences

CONSTANT Strict
VARIABLES phase,   \* "idle" (no accumulation in progress) or "run"
          acc,     \* accumulated amount
          prev,    \* accumulated amount before the last item
          n,       \* number of items added
          limit,   \* the limit of the accumulation in progress
          done     \* history: one record per finished accumulation
fcvars == <<phase, acc, prev, n, limit, done>>

\* @type: (Int, Int) => Bool;
Reached(x, L) == IF Strict THEN x > L ELSE x >= L

Record == [acc : Int, prev : Int, n : Nat, limit : Int, early : BOOLEAN]
TypeOK == /\ phase \in {"idle", "run"}
          /\ acc \in Int /\ prev \in Int /\ n \in Nat /\ limit \in Int
          /\ done \in Seq(Record)

Init == phase = "idle" /\ acc = 0 /\ prev = 0 /\ n = 0 /\ limit = 0 /\ done = <<>>

Start(L) == /\ phase = "idle"
            /\ phase' = "run" /\ acc' = 0 /\ prev' = 0 /\ n' = 0 /\ limit' = L
            /\ UNCHANGED done

Add(m) == /\ phase = "run"
          /\ n = 0 \/ ~Reached(acc, limit)          \* the first item always; later ones only below the limit
          /\ acc' = acc + m /\ prev' = acc /\ n' = n + 1
          /\ UNCHANGED <<phase, limit, done>>

Finish(early) ==
          /\ phase = "run" /\ n >= 1
          /\ early \/ Reached(acc, limit)           \* only once the limit has been reached (or nothing is left to add)
          /\ done' = Append(done, [acc |-> acc, prev |-> prev, n |-> n, limit |-> limit, early |-> early])
          /\ phase' = "idle" /\ acc' = 0 /\ prev' = 0 /\ n' = 0 /\ limit' = 0

(* Add immediately followed by Finish, as one step (implementations decide right after the item is added) *)
AddFinish(m, early) ==
          /\ phase = "run"
          /\ n = 0 \/ ~Reached(acc, limit)
          /\ early \/ Reached(acc + m, limit)
          /\ done' = Append(done, [acc |-> acc + m, prev |-> acc, n |-> n + 1, limit |-> limit, early |-> early])
          /\ phase' = "idle" /\ acc' = 0 /\ prev' = 0 /\ n' = 0 /\ limit' = 0

Next == \/ \E L \in Int : Start(L)
        \/ \E m \in Int : Add(m)
        \/ \E e \in BOOLEAN : Finish(e)
        \/ \E m \in Int, e \in BOOLEAN : AddFinish(m, e)
Spec == Init /\ [][Next]_fcvars

(* the statement: every finished accumulation stopped at the first partial sum that reached its limit *)
\* @type: ({acc: Int, prev: Int, n: Int, limit: Int, early: Bool}) => Bool;
RecordOK(r) == /\ r.n >= 1
               /\ r.early \/ Reached(r.acc, r.limit)
               /\ r.n > 1 => ~Reached(r.prev, r.limit)
StoppedAtFirstCrossing == \A k \in 1..Len(done) : RecordOK(done[k])
=============================================================================
