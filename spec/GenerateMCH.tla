----------------------------- MODULE GenerateMCH -----------------------------
(***************************************************************************)
(* The generation machine with the history of its decisions as a second    *)
(* variable.  TLC generates behaviours (exhaustively under VIEW st for     *)
(* small target grids, in simulation mode for targets of hundreds of       *)
(* units) and exports the history of every terminal state; the harness     *)
(* steps the real code through each (scripted generator, forced targets)   *)
(* and validates what the code did with GenerateTrace: specification ->    *)
(* code -> specification.  Every option is taken here, also those of       *)
(* probability zero: the harness only replays behaviours whose options     *)
(* have positive probability (flag `positive`).                            *)
(***************************************************************************)
EXTENDS Generate, Json

CONSTANT Targets

VARIABLES st, hist, pos
vars == <<st, hist, pos>>

Init == st = Settle(Init0) /\ hist = <<>> /\ pos = TRUE
Choice == st.pc \in DecisionPcs /\ \E k \in 1..Len(st.cand) :
             st' = Apply(st, k) /\ hist' = Append(hist, <<"c", k - 1>>) /\ pos' = (pos /\ Positive(st.law[k]))
Draw   == st.pc = "draw" /\ \E t \in Targets[st.ei] : st' = ApplyDraw(st, t) /\ hist' = Append(hist, <<"d", t>>) /\ pos' = pos
Next == Choice \/ Draw
Spec == Init /\ [][Next]_vars

View == <<st, pos>>
Bound(n) == Len(st.main.res) <= n
Export == st.pc \in {"done", "error"} =>
   PrintT(ToJson([pc |-> st.pc, err |-> st.err, hist |-> hist, positive |-> pos, nres |-> Len(st.main.res)]))
=============================================================================
