---------------------------- MODULE Conjugation ----------------------------
(***************************************************************************)
(* C03: the BigSMILES conjugation rule, and nothing else.                  *)
(* A bond descriptor is a record with at least the fields                  *)
(*   sym \in {"", "$", "<", ">"}   ("" is the empty terminal descriptor []) *)
(*   id  \in Int                   (-1 = no id: an id of its own)           *)
(*   ord \in Nat                   (bond order it forms: 1, 2, 3, 15 = 1.5) *)
(* Further fields (weight w, transition list tr) are not looked at.        *)
(***************************************************************************)
EXTENDS Naturals, Integers

NoId == 0 - 1

Conjugate(x, y) == \/ (x = "$" /\ y = "$")
                   \/ (x = "<" /\ y = ">")
                   \/ (x = ">" /\ y = "<")

Compatible(a, b) ==
   /\ a.sym # "" /\ b.sym # ""
   /\ a.id = b.id
   /\ a.ord = b.ord
   /\ Conjugate(a.sym, b.sym)
=============================================================================
