------------------------------ MODULE EnsembleMC ------------------------------
(***************************************************************************)
(* C13 on the model: every behaviour of the ensemble machine for a small   *)
(* system - every component pick of non-zero fraction, every choice        *)
(* sequence of every member (targets forced per stochastic object:         *)
(* Comps[c].tgt[e]) - ends, yields only fully generated members and stops  *)
(* exactly when the accumulated mass has reached the system mass.          *)
(***************************************************************************)
EXTENDS Ensemble

VARIABLE es

Init == es = EInit
Member == es.g[1]
PickAny == /\ es.pc = "pick"
           /\ \E c \in 1..N : Comps[c].frac > 0 /\ es' = Pick(es, c)
MemberChoice == /\ es.pc = "member" /\ Member.pc \in G(es.k)!DecisionPcs
                /\ \E k \in 1..Len(Member.cand) : Positive(Member.law[k]) /\ es' = [es EXCEPT !.g = <<G(es.k)!Apply(Member, k)>>]
MemberDraw == /\ es.pc = "member" /\ Member.pc = "draw"
              /\ es' = [es EXCEPT !.g = <<G(es.k)!ApplyDraw(Member, Comps[es.k].tgt[Member.ei])>>]
MemberFails == /\ es.pc = "member" /\ Member.pc = "error"
               /\ es' = [es EXCEPT !.pc = "error", !.err = Member.err]
Yield == /\ es.pc = "member" /\ Member.pc = "done"
         /\ es' = MemberDone(es)
Next == PickAny \/ MemberChoice \/ MemberDraw \/ MemberFails \/ Yield
Spec == Init /\ [][Next]_es /\ WF_es(Next)

IStop == StopsExactly(es)
IAccounted == es.acc >= 0 /\ es.n >= 0 /\ (es.n = 0 => es.acc = 0)
(* a member is only ever accounted for when it is fully generated *)
OnlyCompleteMembers == [][ (es.pc = "member" /\ es'.n = es.n + 1) => Member.main.open = <<>> ]_es
AccumulatesMemberMass == [][ (es.pc = "member" /\ es'.n = es.n + 1) => es'.acc = es.acc + Member.main.mass ]_es
Termination == <>(es.pc \in {"end", "error"})
=============================================================================
