---------------------------- MODULE GenerateTypes ----------------------------
(***************************************************************************)
(* C06: closability analysis of descriptor types.                          *)
(*                                                                         *)
(* A finite abstraction of the generation machine that does not depend on  *)
(* the drawn targets: the growing molecule is abstracted to the SET of     *)
(* descriptors (token, index) with the number of open instances counted    *)
(* 1 / "many" (2).  Growth may stop after any unit.  Every pick the concrete machine *)
(* can make is possible here (weights are ignored: an option of weight     *)
(* zero is also allowed), and removing a picked descriptor from the set is *)
(* nondeterministic (another instance of it may remain).  Hence the        *)
(* abstraction over-approximates: if no error state is reachable HERE, the *)
(* concrete machine of module Generate reaches no error for ANY targets    *)
(* and ANY sequence of choices - the instance is well-posed.               *)
(* (The converse does not hold: an instance that relies on zero weights to *)
(* avoid a dead end is reported as possibly ill-posed.)                    *)
(***************************************************************************)
EXTENDS Generate, Json

VARIABLES ei,     \* current element
          open,   \* set of [tok, d] with at least one open instance
          ph,     \* "enter", "grow", "finalise", "cap", "done", "error"
          kept,   \* the descriptor set aside for the right terminal (<<>> or <<td>>)
          err
vars == <<ei, open, ph, kept, err>>

TD(t) == {[tok |-> t, d |-> d] : d \in 1..Len(Tok[t].descs)}
AllTD == UNION {TD(t) : t \in 1..Len(Tok)}
Empty == [x \in AllTD |-> 0]
Has(f) == {x \in AllTD : f[x] > 0}                       \* descriptors with at least one open instance
Plus(f, S) == [x \in AllTD |-> IF x \in S THEN (IF f[x] >= 1 THEN 2 ELSE 1) ELSE f[x]]
(* one instance of x is used: a count of 1 becomes 0, "many" stays many or drops to one *)
Minus(f, x) == IF f[x] = 1 THEN {[f EXCEPT ![x] = 0]} ELSE {f, [f EXCEPT ![x] = 1]}
Total(f) == IF \E x \in AllTD : f[x] = 2 THEN 2 ELSE Cardinality(Has(f))   \* 2 stands for "two or more"
SeqSetOf(s) == {s[i] : i \in 1..Len(s)}

Init == ei = 1 /\ open = Empty /\ ph = "enter" /\ kept = <<>> /\ err = ""

Fail(why) == ph' = "error" /\ err' = why /\ UNCHANGED <<ei, open, kept>>


Enter ==
   /\ ph = "enter"
   /\ IF ei > Len(Elems) THEN ph' = "done" /\ UNCHANGED <<ei, open, kept, err>>
      ELSE LET e == Elems[ei] IN
        IF e.kind = "tok" THEN
           IF ei = 1 THEN open' = Plus(Empty, TD(e.tok)) /\ ei' = ei + 1 /\ UNCHANGED <<ph, kept, err>>
           ELSE IF Total(open) # 1 THEN Fail("prefix-open-count")
           ELSE LET o == CHOOSE x \in Has(open) : TRUE
                    c == {td \in TD(e.tok) : Compatible(DRec(o), DRec(td))} IN
                IF c = {} THEN Fail("empty-candidates:handOver")
                ELSE \E td \in c : open' = Plus(Empty, TD(e.tok) \ {td}) /\ ei' = ei + 1 /\ UNCHANGED <<ph, kept, err>>
        ELSE
           IF ei = 1 THEN
              IF e.left.sym # "" THEN Fail("prefix-expected")
              ELSE IF EndD(e) = <<>> THEN Fail("empty-candidates:startEnd")
              ELSE \E td \in SeqSetOf(EndD(e)) :
                      IF Len(Tok[td.tok].descs) # 1 THEN Fail("start-token-descs")
                      ELSE open' = Plus(Empty, {td}) /\ ph' = "grow" /\ UNCHANGED <<ei, kept, err>>
           ELSE IF Total(open) # 1 THEN Fail("prefix-open-count")
           ELSE LET o == CHOOSE x \in Has(open) : TRUE IN
                IF DRec(o).sym # e.left.sym \/ DRec(o).id # e.left.id THEN Fail("prefix-mismatch")
                ELSE ph' = "grow" /\ UNCHANGED <<ei, open, kept, err>>

(* one unit: any open descriptor, any compatible repeat descriptor (or any listed entry) *)
Grow ==
   /\ ph = "grow"
   /\ LET e == Elems[ei] IN
      \E o \in Has(open) :
         LET listed == DRec(o).tr # <<>> \/ (ei > 1 /\ Elems[ei].left.tr # <<>> /\ o.tok \notin SeqSetOf(e.rep) /\ o.tok \notin SeqSetOf(e.end))
             cands == IF listed THEN SeqSetOf(AllD(e)) ELSE {td \in SeqSetOf(RepD(e)) : Compatible(DRec(o), DRec(td))} IN
         IF cands = {} THEN Fail("empty-candidates:pickPartner")
         ELSE \E td \in cands :
                IF ~Compatible(DRec(td), DRec(o)) THEN Fail("incompatible-attach")
                ELSE /\ \E rest \in Minus(open, o) : open' = Plus(rest, TD(td.tok) \ {td})
                     /\ ph' \in {"grow", "finalise"}          \* the stop comparison may go either way
                     /\ UNCHANGED <<ei, kept, err>>

Finalise ==
   /\ ph = "finalise"
   /\ LET e == Elems[ei] IN
      IF Has(open) = {} THEN ph' = "enter" /\ ei' = ei + 1 /\ kept' = <<>> /\ UNCHANGED <<open, err>>
      ELSE IF e.right.sym # "" THEN
           LET c == {o \in Has(open) : Compatible(Outward(e.right), DRec(o))} IN
           IF c = {} THEN Fail("empty-candidates:reserve")
           ELSE \E o \in c : \E rest \in Minus(open, o) : open' = rest /\ kept' = <<o>> /\ ph' = "cap" /\ UNCHANGED <<ei, err>>
      ELSE ph' = "cap" /\ kept' = <<>> /\ UNCHANGED <<ei, open, err>>

Cap ==
   /\ ph = "cap"
   /\ LET e == Elems[ei] IN
      IF Has(open) = {} THEN open' = Plus(Empty, SeqSetOf(kept)) /\ kept' = <<>> /\ ph' = "enter" /\ ei' = ei + 1 /\ UNCHANGED err
      ELSE \E o \in Has(open) :
             LET c == {td \in SeqSetOf(EndD(e)) : Compatible(DRec(o), DRec(td))} IN
             IF c = {} THEN Fail("empty-candidates:capEnd")
             ELSE \E td \in c : \E rest \in Minus(open, o) :
                    open' = Plus(rest, TD(td.tok) \ {td}) /\ UNCHANGED <<ei, ph, kept, err>>

Next == Enter \/ Grow \/ Finalise \/ Cap
Spec == Init /\ [][Next]_vars

WellPosedForAllTargets == ph # "error"
ClosedWhenDone == ph = "done" => Has(open) = {}
ExportErrors == ph = "error" => PrintT(ToJson([abstract_error |-> err, element |-> ei]))
=============================================================================
