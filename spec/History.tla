------------------------------- MODULE History -------------------------------
(***************************************************************************)
(* C10 / C20.  Histories of API calls on several object slots.             *)
(*                                                                         *)
(* The implementation carries state that a call could leak through:        *)
(* descriptor objects shared between a parsed token and the molecules      *)
(* grown from it, the module-level random generator, and the cache of the  *)
(* force-field assignment class.  The model carries all three explicitly   *)
(* (use[s], grng, cache) and defines what every call OBSERVES as a         *)
(* function of the string in the slot, the operation and its arguments     *)
(* only (Baseline).  TLC enumerates ALL histories up to depth D and        *)
(* exports them; the harness replays each in the real library and          *)
(* compares every observation with the baseline computed in a pristine     *)
(* process for that (string, operation, argument).                         *)
(***************************************************************************)
EXTENDS Naturals, Sequences, FiniteSets, TLC, Json

CONSTANTS Slots, Strings, Seeds, Cfgs, D,
          Kinds      \* the operation kinds enabled in this run (subset of AllKinds)

AllKinds == {"parse", "gen", "genglobal", "perturb", "observe", "stage", "atomgen", "type"}

VARIABLES h,         \* the history so far: Seq of operations
          content,   \* content[s] : 0 (empty) or the string parsed into slot s
          use,       \* use[s]     : number of generations made from the object in slot s   (hidden)
          grng,      \* number of draws taken from the module-level generator              (hidden)
          cache      \* force-field files of the cached assignment class, "" if none       (hidden)
vars == <<h, content, use, grng, cache>>

Op(kind, s, x) == [op |-> kind, slot |-> s, arg |-> x]

Init == /\ h = <<>> /\ content = [s \in Slots |-> 0] /\ use = [s \in Slots |-> 0] /\ grng = 0 /\ cache = ""

Step(o) == /\ Len(h) < D /\ o.op \in Kinds
           /\ h' = Append(h, o)

Parse(s, x) == /\ Step(Op("parse", s, x)) /\ content' = [content EXCEPT ![s] = x] /\ use' = [use EXCEPT ![s] = 0]
               /\ UNCHANGED <<grng, cache>>
Gen(s, seed) == /\ content[s] # 0 /\ Step(Op("gen", s, seed)) /\ use' = [use EXCEPT ![s] = @ + 1]
                /\ UNCHANGED <<content, grng, cache>>
GenGlobal(s) == /\ content[s] # 0 /\ Step(Op("genglobal", s, 0)) /\ use' = [use EXCEPT ![s] = @ + 1] /\ grng' = grng + 1
                /\ UNCHANGED <<content, cache>>
Perturb == /\ Step(Op("perturb", 0, 0)) /\ grng' = grng + 1 /\ UNCHANGED <<content, use, cache>>
Observe(s) == /\ content[s] # 0 /\ Step(Op("observe", s, 0)) /\ UNCHANGED <<content, use, grng, cache>>
Stage(s, seed) == /\ content[s] # 0 /\ Step(Op("stage", s, seed)) /\ use' = [use EXCEPT ![s] = @ + 1]
                  /\ UNCHANGED <<content, grng, cache>>
AtomGen(s, seed) == /\ content[s] # 0 /\ Step(Op("atomgen", s, seed)) /\ UNCHANGED <<content, use, grng, cache>>
Type(s, c) == /\ content[s] # 0 /\ Step(Op("type", s, c)) /\ cache' = c /\ use' = [use EXCEPT ![s] = @ + 1]
              /\ UNCHANGED <<content, grng>>

Next == \/ \E s \in Slots, x \in Strings : Parse(s, x)
        \/ \E s \in Slots, seed \in Seeds : Gen(s, seed) \/ Stage(s, seed) \/ AtomGen(s, seed)
        \/ \E s \in Slots : GenGlobal(s) \/ Observe(s)
        \/ Perturb
        \/ \E s \in Slots, c \in Cfgs : Type(s, c)
Spec == Init /\ [][Next]_vars

(* what call number i of the history observes: a function of the string in its slot and of its own arguments *)
StringAt(i) ==   \* the string in the slot of operation i at the time of the call
   LET s == h[i].slot
       P == {j \in 1..i : h[j].op = "parse" /\ h[j].slot = s} IN
   IF P = {} THEN 0 ELSE h[CHOOSE j \in P : \A k \in P : k <= j].arg
Baseline(i) == [str |-> IF h[i].op = "perturb" THEN 0 ELSE StringAt(i), op |-> h[i].op, arg |-> h[i].arg]

(* the model's theorem: the observation does not mention the hidden state - two calls with equal string, operation *)
(* and argument observe the same, whatever lies between them                                                       *)
NoLeak == \A i, j \in 1..Len(h) : (Baseline(i) = Baseline(j)) => (Baseline(i).str = Baseline(j).str)
HiddenStateMoves == Len(h) = D => TRUE

Export == Len(h) = D => PrintT(ToJson([h |-> h, base |-> [i \in 1..Len(h) |-> Baseline(i)]]))
=============================================================================
