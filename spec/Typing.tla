------------------------------- MODULE Typing -------------------------------
(***************************************************************************)
(* C20.  Force-field typing (forcefield_helper.SMARTS_ASSIGNMENTS.         *)
(* get_type_assignments) as a function of the MATCH RELATION between the   *)
(* rules and the atoms of a molecule.  Which atoms a SMARTS rule matches   *)
(* is chemistry (RDKit, trusted); everything after that is specified here: *)
(*   * the rules are the distinct rule texts in file order (a text written *)
(*     twice keeps its first position and takes the LAST type written),    *)
(*   * an atom takes the type of the LONGEST rule text that matches it,    *)
(*     the earliest one among equally long texts,                          *)
(*   * typing is total: a parameter set for every atom, or the assignment  *)
(*     error carrying exactly the partial assignment.                      *)
(* Rules : Seq of [len, type]   (type: index into the parameter table)     *)
(* A match relation M is a function  rule index -> set of atoms.           *)
(***************************************************************************)
EXTENDS Naturals, Sequences, FiniteSets, TLC

CONSTANTS Rules

NR == Len(Rules)
Matching(M, a) == {r \in 1..NR : a \in M[r]}
Better(r, q) == Rules[r].len > Rules[q].len \/ (Rules[r].len = Rules[q].len /\ r <= q)
Best(M, a) == CHOOSE r \in Matching(M, a) : \A q \in Matching(M, a) : Better(r, q)
Matched(M, n) == {a \in 1..n : Matching(M, a) # {}}
Assign(M, n) == [a \in Matched(M, n) |-> Rules[Best(M, a)].type]
Total(M, n) == Matched(M, n) = 1..n
Outcome(M, n) == [kind |-> IF Total(M, n) THEN "typed" ELSE "assignment-error", types |-> Assign(M, n)]

(* renumbering the atoms by a permutation p of 1..n *)
Renumber(M, p) == [r \in 1..NR |-> {p[a] : a \in M[r]}]
Perms(n) == {p \in [1..n -> 1..n] : \A a, b \in 1..n : p[a] = p[b] => a = b}

(* ---- theorems, checked by TLC over every match relation of a small universe (TypingMC) ---- *)
ExactlyOneTypePerAtom(M, n) == LET o == Outcome(M, n) IN
   /\ o.kind = "typed" <=> DOMAIN o.types = 1..n
   /\ \A a \in DOMAIN o.types : \E r \in Matching(M, a) : o.types[a] = Rules[r].type
NumberingFree(M, n) == \A p \in Perms(n) :
   LET o == Outcome(M, n)  q == Outcome(Renumber(M, p), n) IN
   /\ o.kind = q.kind
   /\ DOMAIN q.types = {p[a] : a \in DOMAIN o.types}
   /\ \A a \in DOMAIN o.types : q.types[p[a]] = o.types[a]
(* the rule order matters only among equally long texts *)
LongestWins(M, n) == \A a \in Matched(M, n) : \A r \in Matching(M, a) : Rules[r].len <= Rules[Best(M, a)].len
=============================================================================
