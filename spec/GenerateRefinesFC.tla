-------------------------- MODULE GenerateRefinesFC --------------------------
(***************************************************************************)
(* C07 as a refinement: under the mapping below every step of the          *)
(* generation machine (GenerateMC: every choice, every target) is a step   *)
(* of the abstract accumulation machine FirstCrossing with Strict = TRUE   *)
(* ("exceeds"), or leaves the mapped variables unchanged.  The theorem of  *)
(* FirstCrossing - every finished accumulation stopped at the first        *)
(* partial sum that reached its limit - is proved for ALL amounts and      *)
(* limits by the proof system (proofs/FirstCrossingProofs.tla); TLC checks *)
(* here, per instance, that the machine implements it.                     *)
(*                                                                         *)
(* Mapping (visible states of GenerateMC are the decision states):         *)
(*   an accumulation is in progress in the six decision states inside a    *)
(*   stochastic object after its draw; acc = mass added by this object,    *)
(*   prev = the same before the last unit, n = units, limit = the drawn    *)
(*   target; done = the history of committed blocks.                       *)
(***************************************************************************)
EXTENDS GenerateMC

InRun(s) == s.pc \in {"pickOpen", "pickPartner", "pickListed", "reserve", "capOpen", "capEnd"}
fPhase(s) == IF InRun(s) THEN "run" ELSE "idle"
fAcc(s)   == IF InRun(s) THEN s.main.mass - s.m0 ELSE 0
fPrev(s)  == IF InRun(s) /\ s.units > 0 THEN s.prevmass - s.m0 ELSE 0
fN(s)     == IF InRun(s) THEN s.units ELSE 0
fLimit(s) == IF InRun(s) THEN s.tgt ELSE 0
fDone(s)  == [k \in 1..Len(s.blocks) |->
                LET bl == s.blocks[k] IN
                [acc |-> bl.after - bl.m0, prev |-> bl.before - bl.m0, n |-> bl.units, limit |-> bl.tgt, early |-> bl.early]]

FC == INSTANCE FirstCrossing WITH Strict <- TRUE, phase <- fPhase(st), acc <- fAcc(st), prev <- fPrev(st), n <- fN(st),
                                  limit <- fLimit(st), done <- fDone(st)

LastDone(s) == fDone(s)[Len(s.blocks)]
(* the witnesses of FirstCrossing's quantified actions are read off the successor state *)
FCStep == \/ FC!Start(st'.tgt)
          \/ FC!Add(fAcc(st') - fAcc(st))
          \/ FC!Finish(TRUE) \/ FC!Finish(FALSE)
          \/ /\ Len(st'.blocks) = Len(st.blocks) + 1
             /\ \E e \in BOOLEAN : FC!AddFinish(LastDone(st').acc - fAcc(st), e)
          \/ UNCHANGED FC!fcvars

(* error states end the behaviour; nothing is claimed about the step into them *)
ImplementsFirstCrossing == [][st'.pc # "error" => FCStep]_st
FCInit == FC!Init
FCTheorem == FC!StoppedAtFirstCrossing      \* the proved theorem, as an invariant of this machine
=============================================================================
