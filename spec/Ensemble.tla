------------------------------ MODULE Ensemble ------------------------------
(***************************************************************************)
(* C13 / C14.  Generation of an ensemble from a generable system:          *)
(*   repeat  pick a component;  generate one member (the generation        *)
(*   machine of that component, module Generate instantiated per           *)
(*   component);  require that it is fully generated;  add its mass        *)
(*   until the accumulated mass has reached the system mass.               *)
(*                                                                         *)
(* Comps : Seq of [elems, tok, frac, mred]                                 *)
(*   elems, tok : the component's Generate instance                        *)
(*   frac       : its declared mass fraction (scaled integer)              *)
(*   mred       : its mean member mass in a reduced integer unit (only     *)
(*                used by the law C14 requires)                            *)
(* SysMass : system mass in mDa.                                           *)
(***************************************************************************)
EXTENDS Notation, TLC

CONSTANTS Comps, SysMass

N == Len(Comps)
G(c) == INSTANCE Generate WITH Elems <- Comps[c].elems, Tok <- Comps[c].tok

(* state of the ensemble machine: one record *)
EInit == [pc |-> "pick", acc |-> 0, n |-> 0, k |-> 0, g |-> <<>>, err |-> ""]

(* the law the implementation is written with: declared mass fractions *)
DeclaredLaw == LET W == SumSeq([c \in 1..N |-> Comps[c].frac]) IN [c \in 1..N |-> <<Comps[c].frac, W>>]
(* C14: for the MASS share of component c to converge to frac_c, members have to be picked with        *)
(* probability proportional to frac_c / (mean member mass of c).  Stated pairwise to stay in integers: *)
ShareLawHolds(pn) ==   \* pn : Seq of integer numerators of the pick probabilities over one common denominator
   /\ Len(pn) = N
   /\ \A i, j \in 1..N : pn[i] * Comps[j].frac * Comps[i].mred = pn[j] * Comps[i].frac * Comps[j].mred
DeclaredLawHolds(pn) == Len(pn) = N /\ \A i, j \in 1..N : pn[i] * Comps[j].frac = pn[j] * Comps[i].frac

(* pick component c *)
Pick(es, c) == LET g0 == G(c)!Settle(G(c)!Init0) IN
               [es EXCEPT !.pc = "member", !.k = c, !.g = <<g0>>]
(* the member of component es.k is complete (its machine is done): account for it *)
MemberDone(es) ==
   LET g == es.g[1] IN
   IF g.main.open # <<>> THEN [es EXCEPT !.pc = "error", !.err = "member-not-fully-generated"]
   ELSE LET acc == es.acc + g.main.mass IN
        [es EXCEPT !.acc = acc, !.n = @ + 1, !.g = <<>>, !.pc = IF acc >= SysMass THEN "end" ELSE "pick"]

(* C13 on states *)
StopsExactly(es) == /\ es.pc = "end" => es.acc >= SysMass      \* not before the system mass is reached
                    /\ es.pc = "pick" => es.acc < SysMass       \* and not one member later
=============================================================================
