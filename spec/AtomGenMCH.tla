----------------------------- MODULE AtomGenMCH -----------------------------
(***************************************************************************)
(* AtomGenMachine with the history of decisions as a second variable: the  *)
(* behaviours TLC generates (exhaustively under VIEW st, or in simulation  *)
(* mode for targets far beyond the exhaustive grids) are exported at their *)
(* terminal states - decisions, targets and the generated graph - and      *)
(* replayed into graph_generate.AtomGraph.generate with a scripted random  *)
(* generator and forced targets (specification -> code).                   *)
(* Every option is explored here, also those of probability zero (the code *)
(* gives them 1e-300): C18 does not depend on the weights.                 *)
(***************************************************************************)
EXTENDS AtomGenMachine, Json

CONSTANT Targets

VARIABLES st, hist
vars == <<st, hist>>

Init == st = Settle(Init0) /\ hist = <<>>
Choice == st.pc \in DecisionPcs /\ \E k \in 1..Len(st.cand) : st' = Apply(st, k) /\ hist' = Append(hist, <<"c", k - 1>>)
Draw   == st.pc = "draw" /\ \E t \in Targets[DrawKey(st)] : st' = ApplyDraw(st, t) /\ hist' = Append(hist, <<"d", t>>)
Next == Choice \/ Draw
Spec == Init /\ [][Next]_vars

View == st
IC18    == C18State(st)
NoError == st.pc # "error"
Bound(n) == Len(st.main.atoms) <= n

Export == st.pc \in {"done", "error"} =>
   PrintT(ToJson([pc |-> st.pc, hist |-> hist, nodes |-> [i \in 1..Len(st.main.atoms) |-> st.main.atoms[i].sn],
                  edges |-> st.main.bonds, ninst |-> NInst(st.main), c18 |-> C18Body(st.main)]))
=============================================================================
