------------------------------ MODULE SystemScan ------------------------------
(***************************************************************************)
(* C02 / C15.  The text of a system: molecules, each followed by a mixture *)
(* specifier  .|number|  or  .|number%|  (the last one may have none).     *)
(*                                                                         *)
(* GRAMMAR level.  A system text is written here as a sequence of PIECES   *)
(* (macro symbols) whose meaning is known by construction:                 *)
(*   "A"  an atom                       C                                  *)
(*   "D"  a bond descriptor             [$]                                *)
(*   "W"  a descriptor whose weight ends in a dot    [$|5.|]   - contains  *)
(*        the two characters .| INSIDE the brackets                        *)
(*   "M"  .|5|     "P"  .|50%|    "Q"  .|.5%|    "E"  .|5.|                *)
(*        mixture specifiers in four number syntaxes                       *)
(*   "S"  a blank                                                          *)
(* Components(x) is the denotation of a piece sequence: the molecule       *)
(* bodies and the specifier that closes each.                              *)
(*                                                                         *)
(* CHARACTER level.  MixStart / Split are the scanner the notation needs:  *)
(* a mixture specifier starts at the first  .|  OUTSIDE square brackets    *)
(* and ends at the next | after its number.  TLC checks over every piece   *)
(* sequence up to a length that the character-level scanner recovers       *)
(* exactly the denotation (ScannerImplementsGrammar), and exports every    *)
(* sequence with its denotation for replay into System(text) /             *)
(* Molecule(text).                                                         *)
(***************************************************************************)
EXTENDS Naturals, Sequences, TLC, Json

CONSTANT MaxLen

Pieces == {"A", "D", "W", "M", "P", "Q", "E", "S"}
Chars(p) == CASE p = "A" -> <<"C">>
              [] p = "D" -> <<"[", "$", "]">>
              [] p = "W" -> <<"[", "$", "|", "5", ".", "|", "]">>
              [] p = "M" -> <<".", "|", "5", "|">>
              [] p = "P" -> <<".", "|", "5", "0", "%", "|">>
              [] p = "Q" -> <<".", "|", ".", "5", "%", "|">>
              [] p = "E" -> <<".", "|", "5", ".", "|">>
              [] p = "S" -> <<" ">>
IsMix(p) == p \in {"M", "P", "Q", "E"}

RECURSIVE Flatten(_)
Flatten(x) == IF x = <<>> THEN <<>> ELSE Chars(Head(x)) \o Flatten(Tail(x))

(* ---------- grammar level: the denotation of a piece sequence ---------- *)
NoBlank(x) == SelectSeq(x, LAMBDA p : p # "S")
RECURSIVE Components(_, _)
Components(x, cur) ==     \* cur: pieces of the molecule being read
   IF x = <<>> THEN (IF NoBlank(cur) = <<>> THEN <<>> ELSE << [body |-> cur, mix |-> ""] >>)
   ELSE IF IsMix(Head(x)) THEN << [body |-> cur, mix |-> Head(x)] >> \o Components(Tail(x), <<>>)
   ELSE Components(Tail(x), Append(cur, Head(x)))
Denotation(x) == Components(x, <<>>)

(* a body the token grammar accepts: atoms, then at most one descriptor; blanks only at its ends *)
BodyOK(b) == LET c == NoBlank(b) IN
   /\ c # <<>>
   /\ c[1] = "A"
   /\ \A i \in 1..Len(c) : c[i] \in {"A", "D", "W"}
   /\ \A i \in 1..(Len(c) - 1) : c[i] = "A"
   /\ \A i, j \in 1..Len(b) : (i < j /\ b[i] # "S" /\ b[j] # "S") => \A k \in i..j : b[k] # "S"
WellFormed(x) == LET d == Denotation(x) IN d # <<>> /\ \A i \in 1..Len(d) : BodyOK(d[i].body)

(* ---------- character level: the scanner ---------- *)
(* position of the first ".|" outside square brackets at or after `from`, 0 if none *)
MixStart(t, from) ==
   LET F[i \in 0..Len(t)] ==     \* <<depth before character i+1, position found>>
         IF i = 0 THEN <<0, 0>>
         ELSE LET p == F[i-1] IN
              IF p[2] # 0 THEN p
              ELSE IF t[i] = "[" THEN <<p[1] + 1, 0>>
              ELSE IF t[i] = "]" THEN <<IF p[1] > 0 THEN p[1] - 1 ELSE 0, 0>>
              ELSE IF p[1] = 0 /\ i >= from /\ t[i] = "." /\ i < Len(t) /\ t[i+1] = "|" THEN <<0, i>>
              ELSE p
   IN F[Len(t)][2]
(* first "|" at or after position k, 0 if none *)
NextBar(t, k) == IF \E i \in k..Len(t) : t[i] = "|" THEN CHOOSE i \in k..Len(t) : t[i] = "|" /\ \A j \in k..(i-1) : t[j] # "|" ELSE 0

Sub(t, a, b) == IF b < a THEN <<>> ELSE [i \in 1..(b - a + 1) |-> t[a + i - 1]]
RECURSIVE Strip(_)
Strip(t) == IF t = <<>> THEN t ELSE IF Head(t) = " " THEN Strip(Tail(t)) ELSE IF t[Len(t)] = " " THEN Strip(Sub(t, 1, Len(t) - 1)) ELSE t

(* the number of a specifier ends at the first | after the opening .| *)
RECURSIVE Split(_)
Split(t) ==
   LET s == MixStart(t, 1) IN
   IF s = 0 THEN (IF Strip(t) = <<>> THEN <<>> ELSE << [body |-> Strip(t), mix |-> <<>>] >>)
   ELSE LET e == NextBar(t, s + 2) IN
        IF e = 0 THEN << [body |-> <<"unclosed">>, mix |-> <<>>] >>
        ELSE << [body |-> Strip(Sub(t, 1, s - 1)), mix |-> Sub(t, s, e)] >> \o Split(Strip(Sub(t, e + 1, Len(t))))

(* ---------- the design theorem ---------- *)
DenotedChars(x) == LET d == Denotation(x) IN
   [i \in 1..Len(d) |-> [body |-> Strip(Flatten(d[i].body)), mix |-> IF d[i].mix = "" THEN <<>> ELSE Chars(d[i].mix)]]
ScannerImplementsGrammar(x) == Split(Flatten(x)) = DenotedChars(x)

(* ---------- enumeration ---------- *)
VARIABLE x
Init == x = <<>>
Next == Len(x) < MaxLen /\ \E p \in Pieces : x' = Append(x, p)
Spec == Init /\ [][Next]_x

Theorem == ScannerImplementsGrammar(x)
Export == PrintT(ToJson([pieces |-> x, wellformed |-> WellFormed(x),
                         comps |-> [i \in 1..Len(Denotation(x)) |-> [body |-> NoBlank(Denotation(x)[i].body), mix |-> Denotation(x)[i].mix]]]))
=============================================================================
