----------------------------- MODULE AtomGenMC -----------------------------
(***************************************************************************)
(* Model checking of the atom-graph generation machine on one graph: every *)
(* option of non-zero probability at every decision, every target of a     *)
(* finite set per (Mw, Mn) key.                                            *)
(***************************************************************************)
EXTENDS AtomGenMachine, Json

CONSTANT Targets      \* Targets[key] : set of targets (1e-4 Da)

VARIABLE st

PcIdx(pc) == CASE pc = "stochNode" -> 1 [] pc = "termEdge" -> 2 [] pc = "stochEdge" -> 3 [] pc = "transNode" -> 4 [] pc = "transEdge" -> 5
                [] pc = "draw" -> 6 [] pc = "done" -> 7 [] OTHER -> 8
Init == st = Settle(Init0) /\ \A r \in 1..8 : TLCSet(r, 0)
(* what the exploration exercised (distinct states per decision kind; TLC registers, one worker) *)
Census == TLCSet(PcIdx(st.pc), TLCGet(PcIdx(st.pc)) + 1)
Report == PrintT(ToJson([mccensus |-> [r \in 1..8 |-> TLCGet(r)]]))

AnyChoice == \E k \in 1..Len(st.cand) : Positive(st.law[k]) /\ st' = Apply(st, k)
StochNode == st.pc = "stochNode" /\ AnyChoice
TermEdge  == st.pc = "termEdge"  /\ AnyChoice
StochEdge == st.pc = "stochEdge" /\ AnyChoice
TransNode == st.pc = "transNode" /\ AnyChoice
TransEdge == st.pc = "transEdge" /\ AnyChoice
Draw      == st.pc = "draw" /\ \E t \in Targets[DrawKey(st)] : st' = ApplyDraw(st, t)

Next == StochNode \/ TermEdge \/ StochEdge \/ TransNode \/ TransEdge \/ Draw
Spec == Init /\ [][Next]_st /\ WF_st(Next)

IC18      == C18State(st)
ILaw      == LawNormalised(st)
NoError   == st.pc # "error"
(* a step never removes or changes an atom or bond of the committed molecule, except that a provisional termination is undone as a whole *)
GrowsOnly == [][ (st.pc # "draw" /\ ~(st.pc = "stochNode")) =>
                   \/ st'.pc = "error"
                   \/ /\ Len(st'.main.atoms) >= Len(st.main.atoms)
                      /\ \A i \in 1..Len(st.main.atoms) : st'.main.atoms[i].sn = st.main.atoms[i].sn /\ st'.main.atoms[i].inst = st.main.atoms[i].inst
                   \/ st'.saved = <<>> /\ st.saved # <<>>  ]_st
(* the block mass that is compared is the mass of the block with its provisional termination *)
OneDrawPerKey == [][ st.pc = "draw" => \A k \in 1..NKeys : st.drawn[k] => (st'.drawn[k] /\ st'.tgt[k] = st.tgt[k]) ]_st
Termination == <>(st.pc \in {"done", "error"})

ExportTerminal == st.pc \in {"done", "error"} =>
   PrintT(ToString(<<st.pc, Len(st.main.atoms), NInst(st.main)>>))
=============================================================================
