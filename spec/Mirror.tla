------------------------------- MODULE Mirror -------------------------------
(***************************************************************************)
(* Molecule.gen_mirror (molecule.py): "a molecule that is identical to the *)
(* original, but as if the elements had been written in reverse".          *)
(*                                                                         *)
(* On the notation's abstract syntax (GenerateTypes: a molecule is a       *)
(* sequence of elements; a token element names its token, a stochastic     *)
(* element has a left and a right terminal, repeat units and end groups)   *)
(* the mirror reverses the sequence and swaps the terminals of every       *)
(* stochastic element; tokens, the lists of repeat units and end groups    *)
(* and every descriptor inside them stay as written.  A molecule of fewer  *)
(* than two elements has no mirror.                                        *)
(*                                                                         *)
(* Not a listed property; it is specified because the reaction graph (C16) *)
(* is also asked of mirrored molecules.  MirrorMC enumerates every element *)
(* sequence over a small alphabet and checks the theorems below; the       *)
(* harness (harness/mirror.py) has TLC evaluate Mirror on the instance     *)
(* library and compares element by element with the object the library    *)
(* returns, and checks that the original is left untouched (the mirror is  *)
(* a copy, not a view).                                                    *)
(***************************************************************************)
EXTENDS Integers, Sequences, FiniteSets

None == <<"no mirror">>

Reverse(s) == [i \in 1..Len(s) |-> s[Len(s) + 1 - i]]

MirrorElem(e) == IF e.kind = "sto" THEN [e EXCEPT !.left = e.right, !.right = e.left] ELSE e

HasMirror(es) == Len(es) >= 2

Mirror(es) == IF HasMirror(es) THEN Reverse([i \in 1..Len(es) |-> MirrorElem(es[i])]) ELSE None

(* ---- theorems (checked by TLC in MirrorMC for every sequence over a small alphabet) ---- *)
Involution(es)      == HasMirror(es) => Mirror(Mirror(es)) = es
SameLength(es)      == HasMirror(es) => Len(Mirror(es)) = Len(es)
(* position i of the mirror is element n+1-i of the original, of the same kind, with the same tokens *)
PositionWise(es)    == HasMirror(es) =>
                         \A i \in 1..Len(es) :
                            LET m == Mirror(es)[i]  o == es[Len(es) + 1 - i] IN
                            /\ m.kind = o.kind /\ m.tok = o.tok /\ m.rep = o.rep /\ m.end = o.end
                            /\ m.left = (IF o.kind = "sto" THEN o.right ELSE o.left)
                            /\ m.right = (IF o.kind = "sto" THEN o.left ELSE o.right)
(* the boundary between neighbours is kept: what was the right side of element k towards k+1 is now the left side of its image towards the image of k+1 *)
BoundariesKept(es)  == HasMirror(es) =>
                         \A k \in 1..(Len(es) - 1) :
                            LET n == Len(es)  m == Mirror(es) IN
                            (es[k].kind = "sto" /\ es[k + 1].kind = "sto") =>
                               /\ m[n + 1 - k].left = es[k].right
                               /\ m[n - k].right = es[k + 1].left
(* a palindrome of elements whose terminals are equal is its own mirror *)
SelfMirror(es)      == (HasMirror(es) /\ Mirror(es) = es) =>
                         \A i \in 1..Len(es) : es[i].kind = "sto" => es[i].left = es[Len(es) + 1 - i].right
=============================================================================
