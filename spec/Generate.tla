------------------------------ MODULE Generate ------------------------------
(***************************************************************************)
(* The generation machine of G-BigSMILES (README "The generation of        *)
(* stochastic objects is implemented as follows", Molecule / Stochastic /  *)
(* SmilesToken .generate and MolGen.attach_other in the code).             *)
(*                                                                         *)
(* One decision point per call on the user-supplied random generator.      *)
(* Between two decisions the machine is deterministic: Settle.  The state  *)
(* is ONE record, so that the same transition operators serve the model    *)
(* checker (GenerateMC), the trace-tree validator (GenerateTrace), the     *)
(* ensemble machine (Ensemble) and the graph modules.                      *)
(*                                                                         *)
(* Instance (CONSTANTS, written literally by the harness from the          *)
(* structured description of the input, never through the library's        *)
(* parser):                                                                *)
(*   Elems : Seq of [kind : {"tok","sto"}, tok, left, right, rep, end]     *)
(*   Tok   : Seq of [mass (mDa), atoms, ibonds, descs]                     *)
(*     descs : Seq of [sym, id, ord, w, tr, atom]                          *)
(*     atoms : Seq of <<Z, charge, isotope, aromatic, nH, noImplicit>>     *)
(*     ibonds: Seq of <<a, b, order>>  (a < b, 1-based, internal bonds)    *)
(*   left/right : terminal descriptor [sym, id, ord, w, tr] (sym "" = [])  *)
(***************************************************************************)
EXTENDS Notation, TLC

CONSTANTS Elems, Tok

(* ---------- descriptors of a stochastic object, repeat units first ---------- *)
RECURSIVE DescsOfToks(_)
DescsOfToks(ts) ==
   IF ts = <<>> THEN <<>>
   ELSE [d \in 1..Len(Tok[Head(ts)].descs) |-> [tok |-> Head(ts), d |-> d]] \o DescsOfToks(Tail(ts))
RepD(e) == DescsOfToks(e.rep)
EndD(e) == DescsOfToks(e.end)
AllD(e) == RepD(e) \o EndD(e)
DRec(td) == Tok[td.tok].descs[td.d]          \* descriptor record of a (token, index) pair

(* an open descriptor of a growing molecule:                               *)
(*   [inst, tok, d, w, tr] - residue instance, its token, descriptor index,*)
(*   and the weight / list it currently carries (a left terminal overrides *)
(*   those of the prefix's descriptor)                                     *)
ODesc(o) == DRec(o)
Outward(term) == [sym |-> term.sym, id |-> term.id, ord |-> 1]   \* terminals always denote single bonds
FreshOpen(inst, t) == [d \in 1..Len(Tok[t].descs) |->
                         [inst |-> inst, tok |-> t, d |-> d, w |-> Tok[t].descs[d].w, tr |-> Tok[t].descs[d].tr]]

(* ---------- state ---------- *)
Body0 == [res |-> <<>>, el |-> <<>>, bonds |-> <<>>, open |-> <<>>, mass |-> 0]
Init0 == [ei |-> 1, pc |-> "enter", main |-> Body0, work |-> Body0, m0 |-> 0, tgt |-> 0,
          sel |-> 0, reserved |-> <<>>, cand |-> <<>>, law |-> <<>>, err |-> "", units |-> 0,
          prevmass |-> 0, blocks |-> <<>>, alt |-> <<>>]
(* blocks: history of committed stochastic objects, one record each:                           *)
(*   [el, m0, tgt, units, before, after, early] - masses (mDa) of the growing molecule before   *)
(*   and after the last unit, early = growth ended because no descriptor was left open          *)

DecisionPcs == {"startEnd", "handOver", "pickOpen", "pickPartner", "pickListed", "reserve", "capOpen", "capEnd"}

Err(st, why) == [st EXCEPT !.pc = "error", !.err = why, !.cand = <<>>, !.law = <<>>]

(* attach a new residue of token td.tok through its descriptor td.d to the open descriptor k of body b *)
Attach(b, k, td, ei) ==
   LET o    == b.open[k]
       inst == Len(b.res) + 1
       new  == FreshOpen(inst, td.tok)
   IN [res   |-> Append(b.res, td.tok),
       el    |-> Append(b.el, ei),
       bonds |-> Append(b.bonds, [ai |-> o.inst, ad |-> o.d, bi |-> inst, bd |-> td.d, ord |-> ODesc(o).ord]),
       open  |-> RemoveAt(b.open, k) \o RemoveAt(new, td.d),
       mass  |-> b.mass + Tok[td.tok].mass]

Decide(st, pc, cands, ws) ==
   IF cands = <<>> THEN Err(st, "empty-candidates:" \o pc)
   ELSE [st EXCEPT !.pc = pc, !.cand = cands, !.law = Law(ws)]

(* ---------- deterministic progress up to the next decision ---------- *)
RECURSIVE Settle(_)
Settle(st) ==
  CASE st.pc = "enter" ->
        IF st.ei > Len(Elems) THEN [st EXCEPT !.pc = "done", !.cand = <<>>, !.law = <<>>]
        ELSE LET e == Elems[st.ei] IN
          IF e.kind = "tok" THEN
             IF st.main.res = <<>> THEN
                Settle([st EXCEPT !.main = [res |-> <<e.tok>>, el |-> <<st.ei>>, bonds |-> <<>>, open |-> FreshOpen(1, e.tok),
                                            mass |-> Tok[e.tok].mass],
                                  !.ei = @ + 1])
             ELSE IF Len(st.main.open) # 1 THEN Err(st, "prefix-open-count")
             ELSE LET ds == DescsOfToks(<<e.tok>>)
                      c  == SelectIdx(ds, LAMBDA td : Compatible(ODesc(st.main.open[1]), DRec(td)))
                  IN Decide(st, "handOver", c, [i \in 1..Len(c) |-> DRec(ds[c[i]]).w])
          ELSE \* stochastic object
             IF st.main.res = <<>> THEN
                IF e.left.sym # "" THEN Err(st, "prefix-expected")
                ELSE LET ds == EndD(e) IN
                     Decide(st, "startEnd", [i \in 1..Len(ds) |-> i], [i \in 1..Len(ds) |-> DRec(ds[i]).w])
             ELSE IF Len(st.main.open) # 1 THEN Err(st, "prefix-open-count")
             ELSE LET o == st.main.open[1] IN
                  IF ODesc(o).sym # e.left.sym \/ ODesc(o).id # e.left.id THEN Err(st, "prefix-mismatch")
                  ELSE \* the left terminal's weight / transition list is carried by the prefix's descriptor
                       [st EXCEPT !.pc = "draw", !.cand = <<>>, !.law = <<>>,
                                  !.main.open = <<[o EXCEPT !.w = e.left.w, !.tr = e.left.tr]>>]
    [] st.pc = "grow" ->
        LET op == st.main.open IN
        Decide(st, "pickOpen", [i \in 1..Len(op) |-> i], [i \in 1..Len(op) |-> op[i].w])
    [] st.pc = "afterUnit" ->
        LET e == Elems[st.ei] IN
        IF st.main.open = <<>>   \* premature end: nothing left to grow from
        THEN Settle([st EXCEPT !.pc = "enter", !.ei = @ + 1,
                               !.blocks = Append(@, [el |-> st.ei, m0 |-> st.m0, tgt |-> st.tgt, units |-> st.units,
                                                     before |-> st.prevmass, after |-> st.main.mass, early |-> TRUE])])
        ELSE IF e.right.sym # "" THEN
             LET op == st.main.open
                 c  == SelectIdx(op, LAMBDA o : Compatible(Outward(e.right), ODesc(o)))
             IN Decide([st EXCEPT !.work = st.main, !.reserved = <<>>], "reserve", c,
                       [i \in 1..Len(c) |-> op[c[i]].w])
        ELSE Settle([st EXCEPT !.work = st.main, !.reserved = <<>>, !.pc = "cap"])
    [] st.pc = "cap" ->
        IF st.work.open = <<>> THEN Settle([st EXCEPT !.pc = "provDone"])
        ELSE LET op == st.work.open IN
             Decide(st, "capOpen", [i \in 1..Len(op) |-> i], [i \in 1..Len(op) |-> op[i].w])
    [] st.pc = "provDone" ->
        (* C07: the unit just added is the last one iff the mass this object has added exceeds the target. *)
        (* The branch not taken is kept in `alt` (one level deep): trace validation uses it to tell a       *)
        (* divergence of the stop rule from a divergence of a selection law.                                *)
        LET fin    == [st.work EXCEPT !.open = @ \o st.reserved]
            commit == Settle([st EXCEPT !.main = fin, !.pc = "enter", !.ei = @ + 1, !.alt = <<>>,
                               !.blocks = Append(@, [el |-> st.ei, m0 |-> st.m0, tgt |-> st.tgt, units |-> st.units,
                                                     before |-> st.prevmass, after |-> st.main.mass, early |-> FALSE])])
            cont   == Settle([st EXCEPT !.pc = "grow", !.alt = <<>>])
        IN IF st.main.mass - st.m0 > st.tgt
           THEN [commit EXCEPT !.alt = <<cont>>]
           ELSE [cont EXCEPT !.alt = <<commit>>]
    [] OTHER -> st

(* ---------- the decisions: candidate number k (position in st.cand) is taken ---------- *)
ApplyRaw(st, k) ==
  LET c == st.cand[k]
      e == Elems[st.ei] IN
  CASE st.pc = "startEnd" ->
         LET td == EndD(e)[c]
             t  == td.tok IN
         IF Len(Tok[t].descs) # 1 THEN Err(st, "start-token-descs")
         ELSE [st EXCEPT !.main = [res |-> <<t>>, el |-> <<st.ei>>, bonds |-> <<>>, mass |-> Tok[t].mass, open |-> FreshOpen(1, t)],
                         !.pc = "draw", !.cand = <<>>, !.law = <<>>]
    [] st.pc = "handOver" ->
         Settle([st EXCEPT !.main = Attach(st.main, 1, [tok |-> e.tok, d |-> c], st.ei), !.pc = "enter", !.ei = @ + 1])
    [] st.pc = "pickOpen" ->
         LET o == st.main.open[c] IN
         IF o.tr # <<>> THEN
            IF SumSeq(o.tr) = 0 THEN Err(st, "zero-transition-list")
            ELSE [st EXCEPT !.sel = c, !.pc = "pickListed", !.cand = [i \in 1..Len(o.tr) |-> i],
                            !.law = TransLaw(o.tr)]
         ELSE LET ds == RepD(e)
                  cc == SelectIdx(ds, LAMBDA td : Compatible(ODesc(o), DRec(td)))
              IN Decide([st EXCEPT !.sel = c], "pickPartner", cc, [i \in 1..Len(cc) |-> DRec(ds[cc[i]]).w])
    [] st.pc \in {"pickPartner", "pickListed"} ->
         IF c > Len(AllD(e)) THEN Err(st, "list-index-out-of-range")
         ELSE LET td == AllD(e)[c] IN
              IF ~Compatible(DRec(td), ODesc(st.main.open[st.sel])) THEN Err(st, "incompatible-attach")
              ELSE Settle([st EXCEPT !.main = Attach(st.main, st.sel, td, st.ei), !.pc = "afterUnit", !.units = @ + 1,
                                       !.prevmass = st.main.mass])
    [] st.pc = "reserve" ->
         Settle([st EXCEPT !.reserved = <<st.work.open[c]>>, !.work.open = RemoveAt(st.work.open, c), !.pc = "cap"])
    [] st.pc = "capOpen" ->
         LET o  == st.work.open[c]
             ds == EndD(e)
             cc == SelectIdx(ds, LAMBDA td : Compatible(ODesc(o), DRec(td)))
         IN Decide([st EXCEPT !.sel = c], "capEnd", cc, [i \in 1..Len(cc) |-> DRec(ds[cc[i]]).w])
    [] st.pc = "capEnd" ->
         Settle([st EXCEPT !.work = Attach(st.work, st.sel, EndD(e)[c], st.ei), !.pc = "cap"])

Apply(st, k) == ApplyRaw([st EXCEPT !.alt = <<>>], k)

(* the molecular-weight draw of the current stochastic object: target t (mDa) *)
ApplyDraw(st, t) == Settle([st EXCEPT !.m0 = st.main.mass, !.tgt = t, !.pc = "grow", !.units = 0, !.alt = <<>>])

(* ---------- the molecule a body denotes, atom by atom (C05) ---------- *)
NAt(t) == Len(Tok[t].atoms)
Off(b) == LET F[i \in 0..Len(b.res)] == IF i = 0 THEN 0 ELSE F[i-1] + NAt(b.res[i]) IN F
AtomOfDesc(b, inst, d) == Off(b)[inst - 1] + Tok[b.res[inst]].descs[d].atom

(* bond orders consumed at atom a of residue instance i by the bonds between residues *)
UsedAt(b, i, a) ==
   LET F[k \in 0..Len(b.bonds)] ==
         IF k = 0 THEN 0
         ELSE LET bd == b.bonds[k]
                  u1 == IF bd.ai = i /\ Tok[b.res[i]].descs[bd.ad].atom = a THEN bd.ord ELSE 0
                  u2 == IF bd.bi = i /\ Tok[b.res[i]].descs[bd.bd].atom = a THEN bd.ord ELSE 0
              IN F[k-1] + u1 + u2
   IN F[Len(b.bonds)]

(* usage[i][a] = bond orders consumed at atom a of residue i, as a set of <<i, a, k, ord>> contributions *)
Uses(b) == {<<b.bonds[k].ai, Tok[b.res[b.bonds[k].ai]].descs[b.bonds[k].ad].atom, k, b.bonds[k].ord>> : k \in 1..Len(b.bonds)}
      \cup {<<b.bonds[k].bi, Tok[b.res[b.bonds[k].bi]].descs[b.bonds[k].bd].atom, 0 - k, b.bonds[k].ord>> : k \in 1..Len(b.bonds)}
RECURSIVE SumOrd(_)
SumOrd(S) == IF S = {} THEN 0 ELSE LET x == CHOOSE y \in S : TRUE IN x[4] + SumOrd(S \ {x})
MolAtoms(b) ==
   LET uses == Uses(b)
       F[i \in 0..Len(b.res)] ==
         IF i = 0 THEN <<>>
         ELSE F[i-1] \o [a \in 1..NAt(b.res[i]) |->
                           LET x == Tok[b.res[i]].atoms[a] IN
                           <<x[1], x[2], x[3], x[4],
                             IF x[6] = 1 THEN x[5] ELSE x[5] - SumOrd({u \in uses : u[1] = i /\ u[2] = a})>>]
   IN F[Len(b.res)]

MolBonds(b) ==
   LET off == Off(b) IN
   UNION {{<<off[i-1] + Tok[b.res[i]].ibonds[k][1], off[i-1] + Tok[b.res[i]].ibonds[k][2], Tok[b.res[i]].ibonds[k][3]>> :
              k \in 1..Len(Tok[b.res[i]].ibonds)} : i \in 1..Len(b.res)}
   \cup {LET bd == b.bonds[k]
             x == off[bd.ai - 1] + Tok[b.res[bd.ai]].descs[bd.ad].atom
             y == off[bd.bi - 1] + Tok[b.res[bd.bi]].descs[bd.bd].atom
         IN IF x < y THEN <<x, y, bd.ord>> ELSE <<y, x, bd.ord>> : k \in 1..Len(b.bonds)}

OpenAtoms(b) == LET off == Off(b) IN
   [k \in 1..Len(b.open) |-> off[b.open[k].inst - 1] + Tok[b.res[b.open[k].inst]].descs[b.open[k].d].atom]

(* ---------- properties of states (used by GenerateMC; also evaluated on every validated trace node) ---------- *)
B(st) == st.main

(* C05: a tree of residues *)
TreeInv(st) == B(st).res # <<>> => Len(B(st).bonds) = Len(B(st).res) - 1
Connected(st) ==   \* every residue but the first was attached to an earlier one (creation order), so the graph is one tree
   \A k \in 1..Len(B(st).bonds) : B(st).bonds[k].bi = k + 1 /\ B(st).bonds[k].ai <= k
MassInv(st) == B(st).mass = SumSeq([i \in 1..Len(B(st).res) |-> Tok[B(st).res[i]].mass])

(* C04: bonds join compatible descriptors, each used once, with their order *)
BondsCompatible(st) == \A i \in 1..Len(B(st).bonds) : LET b == B(st).bonds[i] IN
      /\ Compatible(Tok[B(st).res[b.ai]].descs[b.ad], Tok[B(st).res[b.bi]].descs[b.bd])
      /\ b.ord = Tok[B(st).res[b.ai]].descs[b.ad].ord
      /\ b.ord = Tok[B(st).res[b.bi]].descs[b.bd].ord
DescInstances(st) == {<<i, d>> : i \in 1..Len(B(st).res), d \in 1..8} \cap
                     UNION {{<<i, d>> : d \in 1..Len(Tok[B(st).res[i]].descs)} : i \in 1..Len(B(st).res)}
UsedInstances(st) == {<<B(st).bonds[k].ai, B(st).bonds[k].ad>> : k \in 1..Len(B(st).bonds)} \cup
                     {<<B(st).bonds[k].bi, B(st).bonds[k].bd>> : k \in 1..Len(B(st).bonds)}
OpenInstances(st) == {<<B(st).open[k].inst, B(st).open[k].d>> : k \in 1..Len(B(st).open)}
UsedOnce(st) ==
   /\ Cardinality(UsedInstances(st)) = 2 * Len(B(st).bonds)
   /\ Cardinality(OpenInstances(st)) = Len(B(st).open)
   /\ UsedInstances(st) \cap OpenInstances(st) = {}
   /\ st.pc \in {"done", "draw", "pickOpen", "pickPartner", "pickListed", "handOver"} =>
         UsedInstances(st) \cup OpenInstances(st) = DescInstances(st)

(* C08 *)
LawNormalised(st) == st.law # <<>> => LawWellFormed(st.law) /\ Len(st.law) = Len(st.cand)

(* C06 at the end *)
Closed(st) == st.pc = "done" => B(st).open = <<>>
StoElems == {i \in 1..Len(Elems) : Elems[i].kind = "sto"}

(* ---------- C06: the finished molecule, element by element ---------- *)
IsEndTok(t) == \E i \in StoElems : \E k \in 1..Len(Elems[i].end) : Elems[i].end[k] = t
IsRepTok(t) == \E i \in StoElems : \E k \in 1..Len(Elems[i].rep) : Elems[i].rep[k] = t
Degree(b, i) == Cardinality({k \in 1..Len(b.bonds) : b.bonds[k].ai = i \/ b.bonds[k].bi = i})
ElementOrder(st) == st.pc = "done" =>
   LET b == B(st) IN
   /\ \A i \in 1..(Len(b.el) - 1) : b.el[i] <= b.el[i+1]                        \* written order
   /\ \A e \in 1..Len(Elems) : Elems[e].kind = "tok" =>
          Cardinality({i \in 1..Len(b.res) : b.el[i] = e}) = 1                  \* prefix / connector / suffix exactly once
   /\ \A e \in StoElems : \E i \in 1..Len(b.res) : b.el[i] = e /\ IsRepTok(b.res[i])  \* at least one repeat unit
NeighbourBonds(st) == st.pc = "done" =>
   LET b == B(st)
       between(e, f) == {k \in 1..Len(b.bonds) : {b.el[b.bonds[k].ai], b.el[b.bonds[k].bi]} = {e, f}} IN
   /\ \A k \in 1..Len(b.bonds) :
         LET d == b.el[b.bonds[k].bi] - b.el[b.bonds[k].ai] IN d = 0 \/ d = 1 \/ d = 0 - 1  \* never between non-adjacent elements
   /\ \A e \in 1..(Len(Elems) - 1) : Cardinality(between(e, e + 1)) = 1                      \* exactly one bond per adjacent pair
TerminalsRespected(st) == st.pc = "done" =>
   LET b == B(st) IN
   \A k \in 1..Len(b.bonds) :
      LET bd == b.bonds[k]
          ea == b.el[bd.ai]
          eb == b.el[bd.bi] IN
      ea < eb =>   \* the bond that leaves element ea towards element eb
         /\ Elems[ea].kind = "sto" => Compatible(Outward(Elems[ea].right), Tok[b.res[bd.ai]].descs[bd.ad])
         /\ Elems[eb].kind = "sto" => /\ Tok[b.res[bd.ai]].descs[bd.ad].sym = Elems[eb].left.sym
                                      /\ Tok[b.res[bd.ai]].descs[bd.ad].id = Elems[eb].left.id
EndGroupsAreLeaves(st) == st.pc = "done" =>
   \A i \in 1..Len(B(st).res) : (IsEndTok(B(st).res[i]) /\ Len(Tok[B(st).res[i]].descs) = 1) => Degree(B(st), i) <= 1

(* ---------- C07: every committed block obeys the stop rule ---------- *)
StopRule(st) == \A k \in 1..Len(st.blocks) : LET bl == st.blocks[k] IN
   /\ bl.units >= 1                                   \* at least one unit
   /\ bl.early \/ bl.after - bl.m0 > bl.tgt           \* stopped only after exceeding the target (or nothing left open)
   /\ bl.units > 1 => bl.before - bl.m0 <= bl.tgt     \* and not one unit later than necessary
GrowOnlyBelowTarget(st) ==   \* growth continues only while the target is not exceeded
   (st.pc = "pickOpen" /\ st.units >= 1) => st.main.mass - st.m0 <= st.tgt
=============================================================================
