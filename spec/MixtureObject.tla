---------------------------- MODULE MixtureObject ----------------------------
(***************************************************************************)
(* C12 (mechanism "linked setters").  One Mixture object as a state        *)
(* machine: the absolute mass, the relative mass (percent) and the system  *)
(* mass it belongs to, each known or not (None), linked by                 *)
(*        absolute = relative / 100 * system.                              *)
(* Operations: construction from the written specifier (an absolute mass   *)
(* or a percentage), relative_mass := f, system_mass := m.                 *)
(* Values are exact rationals <<num, den>> (den > 0).  TLC explores every  *)
(* sequence of operations up to a depth over a small grid of values        *)
(* (zero included), checks the invariants and exports every history with   *)
(* the state after each operation for replay into the real object.         *)
(***************************************************************************)
EXTENDS Integers, Sequences, TLC, Json

CONSTANTS Percents,   \* values tried for percentages (integers; may contain values outside 0..100)
          Masses,     \* values tried for masses (integers; may contain negatives)
          D           \* number of setter calls after construction

None == <<0, 0>>                       \* "not known" (denominator 0 never occurs in a value)
Q(n) == <<n, 1>>
Known(x) == x[2] # 0
RECURSIVE GCD(_, _)
GCD(a, b) == IF b = 0 THEN a ELSE GCD(b, a % b)
AbsI(n) == IF n < 0 THEN 0 - n ELSE n
Norm(x) == LET g == GCD(AbsI(x[1]), x[2]) IN IF g = 0 THEN x ELSE <<x[1] \div g, x[2] \div g>>      \* lowest terms (TLC's integers are 32 bit)
Mul(x, y) == Norm(<<x[1] * y[1], x[2] * y[2]>>)
Div(x, y) == Norm(IF y[1] > 0 THEN <<x[1] * y[2], x[2] * y[1]>> ELSE <<0 - x[1] * y[2], 0 - x[2] * y[1]>>)      \* y # 0
Eq(x, y) == x[1] * y[2] = y[1] * x[2]
Zero(x) == x[1] = 0

VARIABLES abs, rel, sys, st, h      \* st: "ok" or "raised" (outcome of the last operation); h: history of operations with the state after each
vars == <<abs, rel, sys, st, h>>

Snap(op, arg, a, r, s, o) == [op |-> op, arg |-> arg, abs |-> a, rel |-> r, sys |-> s, out |-> o]

(* construction: ".|m|" or ".|p%|" *)
InitAbs(m) == /\ m >= 0 /\ abs = Q(m) /\ rel = None /\ sys = None /\ st = "ok" /\ h = <<Snap("abs", m, Q(m), None, None, "ok")>>
InitRel(p) == /\ p >= 0 /\ p <= 100 /\ abs = None /\ rel = Q(p) /\ sys = None /\ st = "ok" /\ h = <<Snap("rel", p, None, Q(p), None, "ok")>>
Init == (\E m \in Masses : InitAbs(m)) \/ (\E p \in Percents : InitRel(p))

(* system_mass := m : a negative mass is refused; a known percentage decides the absolute mass, else a known absolute mass the percentage *)
SysAfter(a, r, m) ==
   IF Known(r) THEN [abs |-> Mul(Div(r, Q(100)), Q(m)), rel |-> r, sys |-> Q(m), out |-> "ok"]
   ELSE IF Known(a) THEN (IF m = 0 THEN [abs |-> a, rel |-> r, sys |-> Q(m), out |-> "raised"]      \* 100 * a / 0
                          ELSE [abs |-> a, rel |-> Div(Mul(Q(100), a), Q(m)), sys |-> Q(m), out |-> "ok"])
   ELSE [abs |-> a, rel |-> r, sys |-> Q(m), out |-> "ok"]
SetSys(m) ==
   /\ Len(h) <= D
   /\ IF m < 0 THEN /\ UNCHANGED <<abs, rel, sys>> /\ st' = "raised" /\ h' = Append(h, Snap("setsys", m, abs, rel, sys, "raised"))
      ELSE LET x == SysAfter(abs, rel, m) IN
           /\ abs' = x.abs /\ rel' = x.rel /\ sys' = x.sys /\ st' = x.out
           /\ h' = Append(h, Snap("setsys", m, x.abs, x.rel, x.sys, x.out))

(* relative_mass := p : outside 0..100 refused; with a known non-zero absolute mass the system mass follows (p = 0 divides by zero) *)
SetRel(p) ==
   /\ Len(h) <= D
   /\ IF p < 0 \/ p > 100 THEN /\ UNCHANGED <<abs, rel, sys>> /\ st' = "raised" /\ h' = Append(h, Snap("setrel", p, abs, rel, sys, "raised"))
      ELSE IF Known(abs) /\ ~Zero(abs)
           THEN IF p = 0 THEN /\ abs' = abs /\ rel' = Q(p) /\ sys' = sys /\ st' = "raised"
                              /\ h' = Append(h, Snap("setrel", p, abs, Q(p), sys, "raised"))
                ELSE LET m == Div(abs, Div(Q(p), Q(100)))                 \* the system mass that makes them consistent
                         a == Mul(Div(Q(p), Q(100)), m) IN                \* (the system-mass setter recomputes the absolute mass from it)
                     /\ abs' = a /\ rel' = Q(p) /\ sys' = m /\ st' = "ok"
                     /\ h' = Append(h, Snap("setrel", p, a, Q(p), m, "ok"))
           ELSE /\ abs' = abs /\ rel' = Q(p) /\ sys' = sys /\ st' = "ok"
                /\ h' = Append(h, Snap("setrel", p, abs, Q(p), sys, "ok"))

Next == (\E m \in Masses : SetSys(m)) \/ (\E p \in Percents : SetRel(p))
Spec == Init /\ [][Next]_vars

(* ---- invariants ---- *)
(* whenever the last operation succeeded and all three are known, they are linked *)
Linked == (st = "ok" /\ Known(abs) /\ Known(rel) /\ Known(sys) /\ Len(h) > 1 /\ h[Len(h)].op = "setsys")
             => Eq(Mul(abs, Q(100)), Mul(rel, sys))
(* nothing negative is ever stored.  (A percentage above 100 CAN be stored: an absolute mass of 200 followed by system_mass := 40 derives 500 %  *)
(* without complaint - TLC's counterexample to the stronger invariant; System() rejects such a specification later, when it adds the percentages *)
(* up, so C12's statement about systems is not affected.)                                                                                        *)
Ranges == /\ Known(abs) => abs[1] * abs[2] >= 0
          /\ Known(rel) => rel[1] * rel[2] >= 0
          /\ Known(sys) => sys[1] * sys[2] >= 0
WrittenPercentInRange == \A i \in 1..Len(h) : (h[i].op \in {"rel", "setrel"} /\ h[i].out = "ok") => (h[i].arg >= 0 /\ h[i].arg <= 100)
(* setting the relative mass keeps a known non-zero absolute mass (up to the identity a = p/100 * (a / (p/100))) *)
AbsKeptBySetRel == [][ (\E p \in Percents : SetRel(p)) /\ Known(abs) /\ ~Zero(abs) /\ st' = "ok" => Eq(abs', abs) ]_vars

Export == Len(h) = D + 1 => PrintT(ToJson([h |-> h]))
=============================================================================
