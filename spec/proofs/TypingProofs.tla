---------------------------- MODULE TypingProofs ----------------------------
(***************************************************************************)
(* C20, unbounded: the assignment of spec/Typing.tla does not depend on    *)
(* the atom numbering - for EVERY number of atoms, every rule list, every  *)
(* match relation and every permutation (TLC checks the same over all      *)
(* match relations of a small universe in TypingMC).                       *)
(***************************************************************************)
EXTENDS Typing, TLAPS

LEMMA MatchingRenumbered ==
  ASSUME NEW n \in Nat, NEW M \in [1..NR -> SUBSET (1..n)], NEW p \in Perms(n), NEW a \in 1..n
  PROVE  Matching(Renumber(M, p), p[a]) = Matching(M, a)
<1>1. \A r \in 1..NR : (p[a] \in {p[b] : b \in M[r]}) <=> (a \in M[r])
  <2> TAKE r \in 1..NR
  <2>1. ASSUME a \in M[r] PROVE p[a] \in {p[b] : b \in M[r]}
    BY <2>1
  <2>2. ASSUME p[a] \in {p[b] : b \in M[r]} PROVE a \in M[r]
    <3>1. PICK b \in M[r] : p[b] = p[a]
      BY <2>2
    <3>2. b \in 1..n
      OBVIOUS
    <3>3. a = b
      BY <3>1, <3>2 DEF Perms
    <3> QED BY <3>3
  <2> QED BY <2>1, <2>2
<1>2. \A r \in 1..NR : Renumber(M, p)[r] = {p[b] : b \in M[r]}
  BY DEF Renumber
<1> QED BY <1>1, <1>2 DEF Matching

THEOREM BestRenumbered ==
  ASSUME NEW n \in Nat, NEW M \in [1..NR -> SUBSET (1..n)], NEW p \in Perms(n), NEW a \in 1..n
  PROVE  Best(Renumber(M, p), p[a]) = Best(M, a)
  BY MatchingRenumbered DEF Best

(* an atom is matched after renumbering iff it was matched before *)
THEOREM MatchedRenumbered ==
  ASSUME NEW n \in Nat, NEW M \in [1..NR -> SUBSET (1..n)], NEW p \in Perms(n), NEW a \in 1..n
  PROVE  (Matching(Renumber(M, p), p[a]) # {}) <=> (Matching(M, a) # {})
  BY MatchingRenumbered
=============================================================================
