------------------------ MODULE FirstCrossingProofs ------------------------
EXTENDS FirstCrossing, TLAPS

Inv == /\ TypeOK
       /\ StoppedAtFirstCrossing
       /\ (phase = "run" /\ n > 1) => ~Reached(prev, limit)

LEMMA InitInv == Init => Inv
  BY DEF Init, Inv, TypeOK, StoppedAtFirstCrossing, Record

LEMMA NextInv == Inv /\ [Next]_fcvars => Inv'
<1> SUFFICES ASSUME Inv, [Next]_fcvars PROVE Inv'
  OBVIOUS
<1>1. CASE \E L \in Int : Start(L)
  BY <1>1 DEF Inv, TypeOK, Start, StoppedAtFirstCrossing, RecordOK, Reached
<1>2. CASE \E m \in Int : Add(m)
  BY <1>2 DEF Inv, TypeOK, Add, StoppedAtFirstCrossing, RecordOK, Reached
<1>3. CASE \E e \in BOOLEAN : Finish(e)
  <2> PICK e \in BOOLEAN : Finish(e)
    BY <1>3
  <2> DEFINE r == [acc |-> acc, prev |-> prev, n |-> n, limit |-> limit, early |-> e]
  <2>1. r \in Record /\ RecordOK(r)
    BY DEF Inv, TypeOK, Finish, Record, RecordOK, Reached
  <2>2. done' = Append(done, r) /\ done \in Seq(Record)
    BY DEF Finish, Inv, TypeOK
  <2>3. done' \in Seq(Record) /\ Len(done') = Len(done) + 1
    BY <2>1, <2>2
  <2>4. \A k \in 1..Len(done') : RecordOK(done'[k])
    BY <2>1, <2>2, <2>3 DEF Inv, StoppedAtFirstCrossing
  <2> QED
    BY <2>3, <2>4 DEF Inv, TypeOK, Finish, StoppedAtFirstCrossing
<1>4. CASE \E m \in Int, e \in BOOLEAN : AddFinish(m, e)
  <2> PICK m \in Int, e \in BOOLEAN : AddFinish(m, e)
    BY <1>4
  <2> DEFINE r == [acc |-> acc + m, prev |-> acc, n |-> n + 1, limit |-> limit, early |-> e]
  <2>1. r \in Record /\ RecordOK(r)
    BY DEF Inv, TypeOK, AddFinish, Record, RecordOK, Reached
  <2>2. done' = Append(done, r) /\ done \in Seq(Record)
    BY DEF AddFinish, Inv, TypeOK
  <2>3. done' \in Seq(Record) /\ Len(done') = Len(done) + 1
    BY <2>1, <2>2
  <2>4. \A k \in 1..Len(done') : RecordOK(done'[k])
    BY <2>1, <2>2, <2>3 DEF Inv, StoppedAtFirstCrossing
  <2> QED
    BY <2>3, <2>4 DEF Inv, TypeOK, AddFinish, StoppedAtFirstCrossing
<1>5. CASE UNCHANGED fcvars
  BY <1>5 DEF Inv, TypeOK, fcvars, StoppedAtFirstCrossing, RecordOK, Reached
<1> QED
  BY <1>1, <1>2, <1>3, <1>4, <1>5 DEF Next

THEOREM Safety == Spec => []StoppedAtFirstCrossing
<1>1. Spec => []Inv
  BY InitInv, NextInv, PTL DEF Spec
<1> QED
  BY <1>1, PTL DEF Inv
=============================================================================
