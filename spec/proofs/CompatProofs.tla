---------------------------- MODULE CompatProofs ----------------------------
(***************************************************************************)
(* C03, unbounded: the theorems TLC checks on the universe of CompatCheck  *)
(* (ids -1..12, five bond prefixes) are proved here by the TLA+ proof      *)
(* system for EVERY id in Int and EVERY bond order in Nat.                 *)
(* Checked with  tlapm CompatProofs.tla  (harness/c03.py requires "All 4   *)
(* obligations proved").                                                   *)
(***************************************************************************)
EXTENDS Conjugation, TLAPS

Syms == {"", "$", "<", ">"}
Desc == [sym : Syms, id : Int, ord : Nat]

THEOREM Symmetric == \A a, b \in Desc : Compatible(a, b) <=> Compatible(b, a)
  BY DEF Compatible, Conjugate, Desc, Syms

THEOREM EmptyBondsNothing == \A a, b \in Desc : a.sym = "" => ~Compatible(a, b) /\ ~Compatible(b, a)
  BY DEF Compatible, Conjugate, Desc, Syms

(* the statement of C03, word for word *)
THEOREM IffStatement ==
  \A a, b \in Desc :
     Compatible(a, b) <=> /\ a.sym # "" /\ b.sym # ""
                          /\ a.id = b.id
                          /\ a.ord = b.ord
                          /\ \/ a.sym = "$" /\ b.sym = "$"
                             \/ {a.sym, b.sym} = {"<", ">"}
  BY DEF Compatible, Conjugate, Desc, Syms

(* weights (or any further field) never influence it: compatibility is a function of sym, id, ord *)
THEOREM WeightIndependent ==
  \A a, b, c : (c.sym = a.sym /\ c.id = a.id /\ c.ord = a.ord)
                  => /\ Compatible(c, b) <=> Compatible(a, b)
                     /\ Compatible(b, c) <=> Compatible(b, a)
  BY DEF Compatible, Conjugate
=============================================================================
