------------------------------- MODULE Mixture -------------------------------
(***************************************************************************)
(* C12.  Mixture bookkeeping of a system: the reference solver of          *)
(*     abs_i = pct_i / 100 * S      sum_i pct_i = 100                      *)
(* in exact rationals, over ALL configurations of a bounded space:         *)
(* 1..MaxN components, each specified by an absolute mass, a percentage    *)
(* or (last component only - the notation cannot write it elsewhere) not   *)
(* at all, with or without a system mass supplied by the caller.           *)
(*                                                                         *)
(* One TLC state per configuration.  The outcome class and the solved      *)
(* values are exported as JSON; the harness replays every configuration    *)
(* into the real System and compares.                                      *)
(***************************************************************************)
EXTENDS Naturals, Integers, Sequences, FiniteSets, TLC, Json

CONSTANTS MaxN, AbsVals, PctVals, ExtVals     \* sets of positive integers

(* ---- exact rationals <<n, d>>, d > 0 ---- *)
RECURSIVE GCD(_, _)
GCD(a, b) == IF b = 0 THEN a ELSE GCD(b, a % b)
Abs(x) == IF x < 0 THEN 0 - x ELSE x
Norm(q) == LET g == GCD(Abs(q[1]), q[2]) IN IF g = 0 THEN <<0, 1>> ELSE <<q[1] \div g, q[2] \div g>>
R(n) == <<n, 1>>
Add(a, b) == Norm(<<a[1] * b[2] + b[1] * a[2], a[2] * b[2]>>)
Sub(a, b) == Norm(<<a[1] * b[2] - b[1] * a[2], a[2] * b[2]>>)
Mul(a, b) == Norm(<<a[1] * b[1], a[2] * b[2]>>)
Div(a, b) == IF b[1] > 0 THEN Norm(<<a[1] * b[2], a[2] * b[1]>>) ELSE Norm(<<0 - a[1] * b[2], a[2] * (0 - b[1])>>)
Lt(a, b) == a[1] * b[2] < b[1] * a[2]
Eq(a, b) == a[1] * b[2] = b[1] * a[2]
RECURSIVE SumR(_)
SumR(s) == IF s = <<>> THEN R(0) ELSE Add(Head(s), SumR(Tail(s)))

(* ---- configurations ---- *)
Spec1 == [kind : {"abs"}, val : AbsVals] \cup [kind : {"pct"}, val : PctVals]
NoneSpec == [kind |-> "none", val |-> 0]
Configs == UNION {
             { [comps |-> c, ext |-> e] : c \in [1..n -> Spec1], e \in ExtVals \cup {0} }
             \cup
             { [comps |-> [i \in 1..n |-> IF i = n THEN NoneSpec ELSE c[i]], ext |-> e] :
                   c \in [1..n -> Spec1], e \in ExtVals \cup {0} }
             : n \in 1..MaxN }

VARIABLE cfg
Init == cfg \in Configs
Next == UNCHANGED cfg
Spec == Init /\ [][Next]_cfg

(* ---- reference solver ---- *)
N(c) == Len(c.comps)
IdxOf(c, k) == {i \in 1..N(c) : c.comps[i].kind = k}
SumOf(c, k) == SumR([i \in 1..N(c) |-> IF c.comps[i].kind = k THEN R(c.comps[i].val) ELSE R(0)])
SA(c) == SumOf(c, "abs")
SP(c) == SumOf(c, "pct")
nA(c) == Cardinality(IdxOf(c, "abs"))
nP(c) == Cardinality(IdxOf(c, "pct"))
nN(c) == Cardinality(IdxOf(c, "none"))

(* the system mass, when the specification determines it: <<"S", q>>, <<"under">>, <<"contra", why>> *)
SysMass(c) ==
   IF c.ext # 0 THEN
        (* a caller-supplied total: every absolute mass becomes a percentage of it *)
        LET pctA == Div(Mul(R(100), SA(c)), R(c.ext))
            tot  == Add(pctA, SP(c)) IN
        IF nN(c) = 0 THEN IF Eq(tot, R(100)) THEN <<"S", R(c.ext)>> ELSE <<"contra", "percentages do not sum to 100">>
        ELSE IF Lt(R(100), tot) THEN <<"contra", "over 100 %">>
        ELSE IF Eq(tot, R(100)) THEN <<"degenerate", "the unspecified component gets 0 %">>
        ELSE <<"S", R(c.ext)>>
   ELSE
        IF nN(c) = 0 THEN
             IF nA(c) = 0 THEN (IF Eq(SP(c), R(100)) THEN <<"under", "no mass anywhere">>
                                ELSE <<"contra", "percentages do not sum to 100">>)
             ELSE IF Lt(SP(c), R(100)) THEN <<"S", Div(Mul(R(100), SA(c)), Sub(R(100), SP(c)))>>
             ELSE <<"contra", "over 100 %">>
        ELSE  \* one unspecified component, no total
             IF Lt(R(100), SP(c)) THEN <<"contra", "over 100 %">>
             ELSE IF nA(c) = 0 /\ Eq(SP(c), R(100)) THEN <<"degenerate", "the unspecified component gets 0 %">>
             ELSE <<"under", "one unspecified component and no total">>

Outcome(c) == SysMass(c)[1]

(* solved values of component i given S *)
PctOf(c, i, S) == CASE c.comps[i].kind = "pct" -> R(c.comps[i].val)
                    [] c.comps[i].kind = "abs" -> Div(Mul(R(100), R(c.comps[i].val)), S)
                    [] OTHER -> Sub(R(100), Add(SP(c), Div(Mul(R(100), SA(c)), S)))
AbsOf(c, i, S) == Div(Mul(PctOf(c, i, S), S), R(100))

(* ---- theorems of the model: a solved configuration satisfies the statement ---- *)
Solved == Outcome(cfg) = "S"
SMass == SysMass(cfg)[2]
SumTo100 == Solved => Eq(SumR([i \in 1..N(cfg) |-> PctOf(cfg, i, SMass)]), R(100))
MassesSumToS == Solved => Eq(SumR([i \in 1..N(cfg) |-> AbsOf(cfg, i, SMass)]), SMass)
UserValuesKept == Solved => \A i \in 1..N(cfg) :
      /\ cfg.comps[i].kind = "abs" => Eq(AbsOf(cfg, i, SMass), R(cfg.comps[i].val))
      /\ cfg.comps[i].kind = "pct" => Eq(PctOf(cfg, i, SMass), R(cfg.comps[i].val))
      /\ cfg.ext # 0 => Eq(SMass, R(cfg.ext))
AllPositive == Solved => \A i \in 1..N(cfg) : Lt(R(0), PctOf(cfg, i, SMass)) /\ ~Lt(R(100), PctOf(cfg, i, SMass))

(* ---- export ---- *)
Export == PrintT(ToJson(
   [comps |-> cfg.comps, ext |-> cfg.ext, outcome |-> Outcome(cfg),
    why |-> IF Solved THEN "" ELSE SysMass(cfg)[2],
    S |-> IF Solved THEN SMass ELSE <<0, 1>>,
    pct |-> IF Solved THEN [i \in 1..N(cfg) |-> PctOf(cfg, i, SMass)] ELSE <<>>,
    abs |-> IF Solved THEN [i \in 1..N(cfg) |-> AbsOf(cfg, i, SMass)] ELSE <<>>]))
=============================================================================
