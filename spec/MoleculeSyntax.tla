--------------------------- MODULE MoleculeSyntax ---------------------------
(***************************************************************************)
(* C01 / C02 / C15, element level.  The bounded grammar of molecule        *)
(* SHAPES: prefix? stochastic-object (connector? stochastic-object)?       *)
(* suffix?, mixture?  - one TLC state per shape.  For every shape the      *)
(* module defines                                                          *)
(*   * Inserted(s): the element list after the notation's automatic        *)
(*     insertion of bond descriptors on prefix / connector / suffix tokens *)
(*     that were written without any (symbol and id of the neighbouring    *)
(*     terminal descriptor; weight 0 towards the following object),        *)
(*   * Canon(s): the canonical lexeme stream, Erase(lexemes): the stream   *)
(*     with every extension lexeme (weights, distribution, mixture value)  *)
(*     deleted,                                                            *)
(* and TLC checks the theorems: insertion is idempotent, erasure keeps     *)
(* every token / descriptor / terminal lexeme and leaves no extension.     *)
(* Shapes are exported; the harness concretises them and replays them into *)
(* the parser (C02: inserted descriptors; C01: round trips; C15: breaking  *)
(* operators applied to them).                                             *)
(***************************************************************************)
EXTENDS Naturals, Sequences, FiniteSets, TLC, Json

CONSTANTS TwoObjects      \* BOOLEAN: also enumerate shapes with two stochastic objects

Syms == {"$", "<", ">"}
TokForms == {"absent", "implicit", "explicit"}   \* implicit: written without descriptors
Terms == Syms \cup {""}

(* a shape *)
Shapes1 == [prefix : TokForms, left : Terms, right : Terms, nrep : 1..2, nend : 0..2, suffix : TokForms,
            mix : {"none", "abs", "pct"}, two : {FALSE}]
Shapes2 == [prefix : TokForms, left : Syms, right : Syms, nrep : {1}, nend : 0..1, suffix : TokForms,
            mix : {"none", "abs"}, two : {TRUE},
            connector : TokForms, left2 : Syms, right2 : Syms, nrep2 : {1, 2}, nend2 : {0}]

(* what the grammar allows: an empty terminal only at an outer end without token; a token only next to a non-empty terminal *)
Sane(s) == /\ (s.prefix # "absent") = (s.left # "")
           /\ IF s.two
              THEN /\ (s.suffix # "absent") = (s.right2 # "")
                   /\ s.right2 # ""
                   \* without connector the next object's left terminal is the descriptor kept open: conjugate of the right terminal
                   /\ s.connector = "absent" => s.left2 = (IF s.right = "$" THEN "$" ELSE IF s.right = "<" THEN ">" ELSE "<")
              ELSE (s.suffix # "absent") = (s.right # "")

VARIABLE s
Init == s \in {x \in Shapes1 \cup (IF TwoObjects THEN Shapes2 ELSE {}) : Sane(x)}
Next == UNCHANGED s
Spec == Init /\ [][Next]_s

(* ---- elements: records [kind, descs] where descs is the sequence of descriptors a token carries:        ---- *)
(* ---- [sym, w, pos] with w in {"1", "0"} and pos in {"lead", "trail"}                                    ---- *)
Tok(ds) == [kind |-> "tok", descs |-> ds]
Sto(l, r, nrep, nend) == [kind |-> "sto", left |-> l, right |-> r, nrep |-> nrep, nend |-> nend]
Lead(sym) == [sym |-> sym, w |-> "1", pos |-> "lead"]
Trail(sym, w) == [sym |-> sym, w |-> w, pos |-> "trail"]

(* the element list as WRITTEN (implicit tokens carry no descriptor) and as DENOTED (after insertion).      *)
(* A token in front of an object hands over through a descriptor with the object's left terminal symbol;   *)
(* a token after an object is entered through a descriptor with the object's right terminal symbol.         *)
Elements(x, inserted) ==
   LET pre  == IF x.prefix = "absent" THEN <<>>
               ELSE <<Tok(IF x.prefix = "explicit" THEN <<Trail(x.left, "1")>>
                          ELSE IF inserted THEN <<Trail(x.left, "0")>> ELSE <<>>)>>
       o1   == <<Sto(x.left, x.right, x.nrep, x.nend)>>
       mid  == IF ~x.two THEN <<>>
               ELSE (IF x.connector = "absent" THEN <<>>
                     ELSE <<Tok(IF x.connector = "explicit" THEN <<Lead(x.right), Trail(x.left2, "1")>>
                                ELSE IF inserted THEN <<Lead(x.right), Trail(x.left2, "0")>> ELSE <<>>)>>)
                    \o <<Sto(x.left2, x.right2, x.nrep2, x.nend2)>>
       lastr == IF x.two THEN x.right2 ELSE x.right
       suf  == IF x.suffix = "absent" THEN <<>>
               ELSE <<Tok(IF x.suffix = "explicit" THEN <<Lead(lastr)>>
                          ELSE IF inserted THEN <<Lead(lastr)>> ELSE <<>>)>>
   IN pre \o o1 \o mid \o suf

Written(x)  == Elements(x, FALSE)
Inserted(x) == Elements(x, TRUE)

(* insertion applied to an element list: a token without descriptors gets them from its neighbours *)
InsertList(es) ==
   [i \in 1..Len(es) |->
      IF es[i].kind = "tok" /\ es[i].descs = <<>>
      THEN Tok((IF i > 1 THEN <<Lead(es[i-1].right)>> ELSE <<>>) \o
               (IF i < Len(es) THEN <<Trail(es[i+1].left, "0")>> ELSE <<>>))
      ELSE es[i]]

(* ---- lexemes ---- *)
RECURSIVE Flat(_)
Flat(ss) == IF ss = <<>> THEN <<>> ELSE Head(ss) \o Flat(Tail(ss))
DescLex(d) == <<"desc:" \o d.sym>> \o (IF d.w = "0" THEN <<"ext:weight">> ELSE <<>>)
ElemLex(e) == IF e.kind = "tok"
              THEN Flat([k \in 1..Len(e.descs) |-> IF e.descs[k].pos = "lead" THEN DescLex(e.descs[k]) ELSE <<>>])
                   \o <<"atoms">> \o
                   Flat([k \in 1..Len(e.descs) |-> IF e.descs[k].pos = "trail" THEN DescLex(e.descs[k]) ELSE <<>>])
              ELSE <<"{", "term:" \o e.left>> \o [k \in 1..e.nrep |-> "unit"] \o [k \in 1..e.nend |-> "end"]
                   \o <<"term:" \o e.right, "}", "ext:distribution">>
Canon(x) == Flat([i \in 1..Len(Inserted(x)) |-> ElemLex(Inserted(x)[i])])
            \o (IF x.mix = "none" THEN <<>> ELSE <<".", "ext:mixture">>)
IsExt(l) == l \in {"ext:weight", "ext:distribution", "ext:mixture"}
Erase(ls) == SelectSeq(ls, LAMBDA l : ~IsExt(l))

(* ---- theorems ---- *)
InsertionIdempotent == InsertList(InsertList(Written(s))) = InsertList(Written(s))
InsertionIsTheDenotation == InsertList(Written(s)) = Inserted(s)
ExplicitUntouched == \A i \in 1..Len(Written(s)) :
      (Written(s)[i].kind = "tok" /\ Written(s)[i].descs # <<>>) => InsertList(Written(s))[i] = Written(s)[i]
ErasureComplete == \A i \in 1..Len(Erase(Canon(s))) : ~IsExt(Erase(Canon(s))[i])
ErasureKeepsStructure ==
   LET keep(ls) == SelectSeq(ls, LAMBDA l : ~IsExt(l)) IN
   /\ Erase(Canon(s)) = keep(Canon(s))
   /\ Erase(Erase(Canon(s))) = Erase(Canon(s))
   /\ Len(Erase(Canon(s))) = Len(Canon(s)) - Cardinality({i \in 1..Len(Canon(s)) : IsExt(Canon(s)[i])})

Export == PrintT(ToJson([shape |-> s, written |-> Written(s), denoted |-> Inserted(s), canon |-> Canon(s),
                         erased |-> Erase(Canon(s))]))
=============================================================================
