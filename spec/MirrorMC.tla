------------------------------ MODULE MirrorMC ------------------------------
(* every element sequence of length 0..MaxLen over: two token elements, stochastic elements with terminals from Terms *)
EXTENDS Mirror, TLC
CONSTANTS MaxLen, Terms
Empty == [sym |-> "", id |-> -1, ord |-> 1]
ElemSet == {[kind |-> "tok", tok |-> t, left |-> Empty, right |-> Empty, rep |-> <<>>, end |-> <<>>] : t \in {1, 2}}
           \cup {[kind |-> "sto", tok |-> 0, left |-> l, right |-> r, rep |-> <<3>>, end |-> e] : l \in Terms, r \in Terms, e \in {<<>>, <<4>>}}
VARIABLE es
Init == es = <<>>
Next == \E e \in ElemSet : Len(es) < MaxLen /\ es' = Append(es, e)
Spec == Init /\ [][Next]_es
T1 == Involution(es)
T2 == SameLength(es)
T3 == PositionWise(es)
T4 == BoundariesKept(es)
T5 == SelfMirror(es)
T6 == ~HasMirror(es) => Mirror(es) = None
=============================================================================
