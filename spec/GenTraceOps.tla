----------------------------- MODULE GenTraceOps -----------------------------
(***************************************************************************)
(* Clauses that relate one recorded event / observation of the             *)
(* implementation to a state of the generation machine.  Pure operators:   *)
(* used by GenerateTrace (one molecule) and, instantiated per component,   *)
(* by EnsembleTrace.                                                       *)
(***************************************************************************)
EXTENDS Generate

Seq1(s) == [i \in 1..Len(s) |-> s[i] + 1]    \* 0-based indices of the code -> 1-based

(* ---- clauses about an event ev at state s ---- *)
CDecision(s, ev)   == ev.kind = "choice" => s.pc \in DecisionPcs
CDraw(s, ev)       == ev.kind = "draw" => s.pc = "draw"
CCandidates(s, ev) == (ev.kind = "choice" /\ s.pc \in DecisionPcs) => Seq1(ev.a) = s.cand
CLaw(s, ev)        == (ev.kind = "choice" /\ s.pc \in DecisionPcs) =>
                         /\ Len(ev.p) = Len(s.law)
                         /\ \A i \in 1..Len(ev.p) : RatEq(ev.p[i], s.law[i])
CPositive(s, ev)   == (ev.kind = "choice" /\ s.pc \in DecisionPcs /\ ev.k >= 0 /\ ev.k + 1 <= Len(s.law)) => Positive(s.law[ev.k + 1])
(* the option taken is one of the options offered (a replayed behaviour may ask for an option the code does not offer) *)
CRange(s, ev)      == ev.kind = "choice" => (ev.k >= 0 /\ ev.k + 1 <= Len(ev.a))
EvOK(s, ev) == CDecision(s, ev) /\ CDraw(s, ev) /\ CCandidates(s, ev) /\ CLaw(s, ev) /\ CRange(s, ev) /\ CPositive(s, ev)
FailedEv(s, ev) ==
   (IF CDecision(s, ev) THEN {} ELSE {"decision-not-expected:" \o s.pc}) \cup
   (IF CDraw(s, ev) THEN {} ELSE {"draw-not-expected:" \o s.pc}) \cup
   (IF CCandidates(s, ev) THEN {} ELSE {"candidates:" \o s.pc}) \cup
   (IF CLaw(s, ev) THEN {} ELSE {"law:" \o s.pc}) \cup
   (IF CPositive(s, ev) THEN {} ELSE {"zero-probability-option-taken:" \o s.pc}) \cup
   (IF CRange(s, ev) THEN {} ELSE {"option-not-offered:" \o s.pc})

Step(s, ev) == IF ev.kind = "draw" THEN ApplyDraw(s, ev.t) ELSE Apply(s, ev.k + 1)

(* ---- clauses about the observation at a node ---- *)
SeqToSet(s) == {s[i] : i \in 1..Len(s)}
NoH(a) == <<a[1], a[2], a[3], a[4]>>
FailedFinal(s, o) ==
   LET ma == MolAtoms(s.main)
       mb == MolBonds(s.main)
       shape == Len(o.atoms) = Len(ma) /\ \A i \in 1..Len(ma) : NoH(o.atoms[i]) = NoH(ma[i])
   IN (IF shape THEN {} ELSE {"atoms"}) \cup
      (IF shape /\ o.atoms # ma THEN {"hydrogens"} ELSE {}) \cup
      (IF SeqToSet(o.bonds) = mb /\ Len(o.bonds) = Cardinality(mb) THEN {} ELSE {"bonds"}) \cup
      (IF o.open = OpenAtoms(s.main) THEN {} ELSE {"open"}) \cup
      (IF o.full = (s.main.open = <<>>) THEN {} ELSE {"fully-generated-flag"}) \cup
      \* masses are integers in mDa; isotope-labelled atoms have more than three decimals: half a mDa per residue of rounding
      (IF 2 * (o.mass - s.main.mass) <= Len(s.main.res) /\ 2 * (s.main.mass - o.mass) <= Len(s.main.res) THEN {} ELSE {"mass"})
FailedObs(s, o) ==
   CASE o.kind = "none"  -> {}
     [] o.kind = "unsanitizable" -> {"sanitisation"}
     [] o.kind = "nontermination" -> {"nontermination"}
     [] o.kind = "error" -> IF s.pc = "error" THEN {} ELSE {"error-not-expected:" \o s.pc}
     [] o.kind = "final" ->
          IF s.pc # "done" THEN {"return-not-expected:" \o s.pc \o ":" \o s.err} \cup
                                (IF s.alt # <<>> /\ s.alt[1].pc = "done" THEN {"stop-rule-counterfactual-explains"} ELSE {})
          ELSE FailedFinal(s, o)

(* ---- following the implementation past a divergence (so that every property is judged on its own clauses) ---- *)
(* (a) the stop rule went the other way: the branch not taken explains the event                                  *)
AltOK(s, ev) == s.alt # <<>> /\ s.alt[1].pc \notin {"done", "error"} /\ EvOK(s.alt[1], ev)
(* (b) candidates or law differ, but the descriptor that was chosen exists: continue with that choice            *)
BaseLen(s) == CASE s.pc = "pickOpen" -> Len(s.main.open)
                [] s.pc \in {"reserve", "capOpen"} -> Len(s.work.open)
                [] s.pc = "handOver" -> Len(Tok[Elems[s.ei].tok].descs)
                [] s.pc \in {"startEnd", "capEnd"} -> Len(EndD(Elems[s.ei]))
                [] s.pc \in {"pickPartner", "pickListed"} -> Len(AllD(Elems[s.ei]))
                [] OTHER -> 0
Tolerable(s, ev) == /\ ev.kind = "choice" /\ s.pc \in DecisionPcs
                    /\ ev.k >= 0 /\ ev.k + 1 <= Len(ev.a)
                    /\ ev.a[ev.k + 1] + 1 <= BaseLen(s)
TolStep(s, ev) == Apply([s EXCEPT !.cand = <<ev.a[ev.k + 1] + 1>>, !.law = << <<1, 1>> >>], 1)

(* C06 / C07 / C04 statements on the state that follows the implementation (they hold on every behaviour of the   *)
(* specification - GenerateMC - so they can only fail here after a divergence, or reveal a defect of the model)   *)
FailedModel(s) ==
   (IF ElementOrder(s) THEN {} ELSE {"model-ElementOrder"}) \cup
   (IF NeighbourBonds(s) THEN {} ELSE {"model-NeighbourBonds"}) \cup
   (IF TerminalsRespected(s) THEN {} ELSE {"model-TerminalsRespected"}) \cup
   (IF EndGroupsAreLeaves(s) THEN {} ELSE {"model-EndGroupsAreLeaves"}) \cup
   (IF StopRule(s) /\ GrowOnlyBelowTarget(s) THEN {} ELSE {"model-StopRule"}) \cup
   (IF BondsCompatible(s) /\ UsedOnce(s) THEN {} ELSE {"model-BondsCompatible"}) \cup
   (IF TreeInv(s) /\ Connected(s) /\ MassInv(s) THEN {} ELSE {"model-Tree"})

=============================================================================
