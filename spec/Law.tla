--------------------------------- MODULE Law ---------------------------------
(***************************************************************************)
(* C09 / C11 / C19.  What it means for recorded numbers of a molecular-    *)
(* weight distribution to be ONE coherent probability law.  Real values    *)
(* enter as integers scaled by S (the reference CDF / mass function comes  *)
(* from an independent numeric oracle, harness/refcdf.py); the module      *)
(* states the RELATIONS the statement demands and TLC evaluates them on    *)
(* every record (one state per record):                                    *)
(*   mass     p(x) >= 0 and p(x) equals the declared law's value           *)
(*   total    the masses sum / integrate to 1 over the support             *)
(*   interval P((a, b]) = F(b) - F(a)                                       *)
(*   draw     a draw made at quantile u returns x with F(x-) <= u <= F(x), *)
(*            finite and inside the support                                *)
(*   mean     the law has the documented mean                              *)
(*   block    a block stops after n units iff F(M_{n-1}) <= u < F(M_n)     *)
(*            (C09: table = the declared law at the cumulative masses)     *)
(*   chain    reported probability = start probability x interval          *)
(*            probability of the block (C19, one block; products of        *)
(*            several blocks are formed outside TLC - 32 bit integers)     *)
(***************************************************************************)
EXTENDS Naturals, Integers, Sequences, TLC, Json, IOUtils

Recs == JsonDeserialize(IOEnv.TRACE_FILE)
S == 100000000      \* 1e8

VARIABLE i
Init == i = 1
Next == i < Len(Recs) /\ i' = i + 1
Spec == Init /\ [][Next]_i

Near(a, b, tol) == a - b <= tol /\ b - a <= tol

Failed(r) ==
   CASE r.kind = "mass" ->
          (IF r.p >= 0 - r.tol THEN {} ELSE {"negative-probability"}) \cup
          (IF Near(r.p, r.ref, r.tol) THEN {} ELSE {"mass-function-differs-from-declared-law"})
     [] r.kind = "total" -> IF Near(r.total, S, r.tol) THEN {} ELSE {"does-not-sum-to-one"}
     [] r.kind = "interval" ->
          \* slack: how far the law's total mass is from 1 (a cumulative function clipped at 1 may be off by that much)
          (IF Near(r.p, r.Fb - r.Fa, r.tol) THEN {}
           ELSE IF Near(r.p, r.Fb - r.Fa, r.tol + r.slack) THEN {"interval-off-by-the-normalisation-error"}
           ELSE {"interval-is-not-cdf-difference"}) \cup
          (IF r.p >= 0 - r.tol THEN {} ELSE {"negative-probability"})
     [] r.kind = "draw" ->
          (IF r.finite = 1 THEN {} ELSE {"draw-not-finite"}) \cup
          (IF r.finite = 1 /\ r.insupport = 0 THEN {"draw-outside-support"} ELSE {}) \cup
          (IF r.finite = 1 /\ ~(r.Flo - r.tol <= r.u /\ r.u <= r.Fhi + r.tol) THEN {"draw-does-not-follow-the-law"} ELSE {})
     [] r.kind = "mean" -> IF Near(r.mean, r.ref, r.tol) THEN {} ELSE {"mean-not-as-documented"}
     [] r.kind = "block" ->
          \* lo = F(M_{n-1}) (minus infinity for n = 1: at least one unit is always added), hi = F(M_n): the declared law at the
          \* cumulative masses before and after the n-th unit
          IF r.lo - r.tol <= r.u /\ r.u < r.hi + r.tol THEN {} ELSE {"block-length-not-from-declared-law"}
     [] r.kind = "chain" ->
          (IF Near(r.p * r.sden, r.snum * (r.Fb - r.Fa), r.tol * r.sden) THEN {} ELSE {"chain-probability-differs"})
     [] r.kind = "zero" -> IF Near(r.p, 0, r.tol) THEN {} ELSE {"probability-outside-ensemble-not-zero"}
     [] OTHER -> {"unknown-record"}

Diagnose == LET f == Failed(Recs[i]) IN f = {} \/ PrintT(ToJson([rec |-> i, failed |-> f]))
=============================================================================
