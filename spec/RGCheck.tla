------------------------------- MODULE RGCheck -------------------------------
(* C16: model checking wrapper - the generation machine together with the reaction graph of the same instance. *)
EXTENDS GenerateMC, ReactionGraph

IGraph == GraphAgrees(st)
(* state constraint for branched instances: the laws at the decisions do not depend on how large the molecule already is *)
Bound == Len(st.main.res) <= 5 /\ Len(st.work.res) <= 7

EdgeSet(td, kind, es) == {[from |-> <<td.tok, td.d>>, kind |-> kind, to |-> <<es[k].to.tok, es[k].to.d>>, p |-> es[k].p] : k \in 1..Len(es)}
GraphJson == [nodes |-> NodeCount,
              edges |-> UNION {EdgeSet(td, "prob", Reaction(td)) \cup EdgeSet(td, "term_prob", TermOf(td))
                               \cup EdgeSet(td, "trans_prob", Transition(td)) : td \in AllDescNodes}]
ExportGraph == st.pc = st.pc /\ (TLCGet("level") > 1 \/ PrintT(ToJson(GraphJson)))
=============================================================================
