"""Histories of API calls (spec/History.tla): TLC enumerates them, this module replays them into the real library and
compares every observation with a baseline computed in a pristine process per (string, operation, argument)."""
import json
import multiprocessing as mp
import os
import shutil
import sys
import tempfile

import numpy as np

from . import common
from .common import Scratch, run_tlc, MachineryError, tla


def enumerate_histories(slots, nstrings, seeds, cfgs, depth, kinds, timeout=1800, simulate=None):
    with Scratch("hist") as d:
        with open(os.path.join(d, "MC.tla"), "w") as f:
            f.write("---- MODULE MC ----\nEXTENDS History\n====\n")
        cfg = os.path.join(d, "MC.cfg")
        with open(cfg, "w") as f:
            f.write("SPECIFICATION Spec\nCONSTANTS\n"
                    f" Slots = {tla(set(range(1, slots + 1)))}\n Strings = {tla(set(range(1, nstrings + 1)))}\n Seeds = {tla(set(seeds))}\n"
                    f" Cfgs = {tla(set(cfgs)) if cfgs else '{}'}\n D = {depth}\n Kinds = {tla(set(kinds))}\n"
                    "INVARIANT NoLeak\nINVARIANT Export\n")
        r = run_tlc(d, "MC", cfg=cfg, workers=1, timeout=timeout, xmx="6g")
    if not r.ok:
        print(r.tail(30))
        raise MachineryError("TLC failed on History")
    hs = [x for x in r.printed if "h" in x]
    return hs, r


# ---- observations ----
def _obs_generate(fn):
    try:
        m = fn()
        return ["mol", m.smiles, round(float(m.weight), 6), bool(m.fully_generated)]
    except Exception as exc:
        return ["raises", type(exc).__name__]


def _graph_summary(g, obj):
    out = []
    try:
        G = obj.gen_reaction_graph()
        edges = []
        for a, b, dat in G.edges(data=True):
            lab = lambda n: n.generate_string(True) + "#" + str(getattr(n, "descriptor_num", ""))
            edges.append([lab(a), lab(b), sorted((k, round(float(v), 9)) for k, v in dat.items() if isinstance(v, (int, float)))])
        out.append(["rg", len(G.nodes), sorted(edges, key=str)])
    except Exception as exc:
        out.append(["rg-raises", type(exc).__name__])
    try:
        sag = obj.gen_stochastic_atom_graph(expect_schulz_zimm_distribution=False)
        ed = sorted([int(a), int(b), sorted((k, round(float(v), 9)) for k, v in dat.items())] for a, b, dat in sag.graph.edges(data=True))
        out.append(["sag", len(sag.graph.nodes), len(ed), ed[:40]])
    except Exception as exc:
        out.append(["sag-raises", type(exc).__name__])
    return out


def observe(g, obj):
    try:
        els = [str(e) for e in obj.elements]
    except Exception as exc:
        els = ["raises", type(exc).__name__]
    try:
        mir = obj.gen_mirror()
        mir = None if mir is None else str(mir)
    except Exception as exc:
        mir = "raises " + type(exc).__name__
    return [str(obj), obj.generate_string(False), bool(obj.generable), els, mir] + _graph_summary(g, obj)


def system_ops(sysobj, k, seed):
    """observations of a System: its printed forms (observe), the whole ensemble under a seeded generator (stage)"""
    if k == "observe":
        return [str(sysobj), sysobj.generate_string(False), bool(sysobj.generable)]
    if k == "stage":
        try:
            rng = np.random.default_rng(seed)
            return ["ensemble", [[m.smiles, round(float(m.weight), 6)] for m in type(sysobj).generator.fget(sysobj, rng)]]
        except Exception as exc:
            return ["raises", type(exc).__name__]
    return ["n/a"]


def stagewise(obj, seed):
    rng = np.random.default_rng(seed)
    mg = None
    ws = []
    try:
        for el in obj.elements:
            mg = el.generate(mg, rng)
            ws.append(round(float(mg.weight), 6))
        return ["mol", mg.smiles, round(float(mg.weight), 6), ws]
    except Exception as exc:
        return ["raises", type(exc).__name__]


def atomgen(g, obj, seed):
    try:
        sag = obj.gen_stochastic_atom_graph(expect_schulz_zimm_distribution=True)
        ag = g.AtomGraph(sag, rng=np.random.default_rng(seed))
        ag.generate()
        from rdkit import Chem
        return ["mol", Chem.MolToSmiles(ag.to_mol())]
    except Exception as exc:
        return ["raises", type(exc).__name__]


FF_FILES = {}


def ff_files():
    """explicit copies A and B of the bundled parameter files (scratch directory of this process)"""
    if not FF_FILES:
        import gbigsmiles
        base = os.path.join(os.path.dirname(gbigsmiles.__file__), "data")
        d = tempfile.mkdtemp(prefix="gbsverif_ff_")
        for tag in ("A", "B"):
            r = os.path.join(d, f"rules_{tag}.par")
            p = os.path.join(d, f"params_{tag}.itp")
            shutil.copy(os.path.join(base, "opls.par"), r)
            shutil.copy(os.path.join(base, "ffnonbonded.itp"), p)
            FF_FILES[tag] = (r, p)
        FF_FILES["dir"] = d
    return FF_FILES


def typing(g, obj, cfg, seed=7):
    """cfg: 'default' | 'A' | 'B' | 'partial'"""
    from rdkit import Chem
    try:
        if cfg == "partial":
            # a partially generated molecule: the whole molecule if it ends with an open descriptor, else its first element alone
            mg = obj.generate(rng=np.random.default_rng(seed))
            if len(mg.bond_descriptors) == 0:
                mg = obj.elements[0].generate(None, np.random.default_rng(seed))
            if len(mg.bond_descriptors) == 0:
                return ["not-partial"]
            try:
                mg.forcefield_types
                return ["partial-accepted"]
            except Exception as exc:
                return ["partial-refused", type(exc).__name__]
        mg = obj.generate(rng=np.random.default_rng(seed))
        if len(mg.bond_descriptors) > 0:
            # the molecule text ends with an open descriptor: typing has to refuse, with whichever files
            try:
                if cfg == "default":
                    mg.forcefield_types
                else:
                    mg.get_forcefield_types(*ff_files()[cfg])
                return ["partial-accepted"]
            except Exception as exc:
                return ["partial-refused", type(exc).__name__]
        if cfg == "default":
            ff, mol = mg.forcefield_types
        else:
            r, p = ff_files()[cfg]
            ff, mol = mg.get_forcefield_types(r, p)
        per_atom = []
        pt = Chem.GetPeriodicTable()
        for a in mol.GetAtoms():
            prm = ff.get(a.GetIdx())
            per_atom.append([a.GetAtomicNum(), None if prm is None else [round(prm.mass, 4), prm.bond_type_name, round(prm.charge, 4), round(prm.sigma, 6), round(prm.epsilon, 6)]])
        return ["typed", Chem.MolToSmiles(mol), mol.GetNumAtoms(), len(ff), sorted(per_atom, key=str)]
    except Exception as exc:
        if type(exc).__name__ == "FfAssignmentError":
            part = getattr(exc, "incomplete_ff_dict", None)
            emol = getattr(exc, "mol", None)
            per_atom = []
            if isinstance(part, dict) and emol is not None:
                for idx, prm in part.items():
                    try:
                        z = emol.GetAtomWithIdx(int(idx)).GetAtomicNum()
                    except Exception:
                        z = -1
                    if hasattr(prm, "mass") and hasattr(prm, "sigma"):
                        per_atom.append([z, [round(prm.mass, 4), prm.bond_type_name, round(prm.charge, 4), round(prm.sigma, 6), round(prm.epsilon, 6)]])
                    else:
                        per_atom.append([z, "not-a-parameter-set:" + type(prm).__name__])
            return ["assignment-error", None if part is None else len(part), emol is not None, sorted(per_atom, key=str),
                    None if emol is None else emol.GetNumAtoms()]
        return ["raises", type(exc).__name__]


class Replayer:
    def __init__(self, g, strings, seedmap):
        self.g = g
        self.strings = strings
        self.seedmap = seedmap
        self.slots = {}

    def do(self, op, strid_for_seed=None):
        g = self.g
        k, s, a = op["op"], op["slot"], op["arg"]
        if k == "parse":
            text = self.strings[a - 1]
            # a string marked SYS: is the text of a system (several components): System(text)
            self.slots[s] = (a, g.System(text[4:]) if text.startswith("SYS:") else g.Molecule(text))
            return None
        if k == "perturb":
            g._GLOBAL_RNG.random()
            g._GLOBAL_RNG.standard_normal()
            return None
        sid, obj = self.slots[s]
        if self.strings[sid - 1].startswith("SYS:") and k in ("observe", "stage", "atomgen"):
            return system_ops(obj, k, self.seedmap[sid - 1][a - 1] if k != "observe" else 0)
        if k == "gen":
            return _obs_generate(lambda: obj.generate(rng=np.random.default_rng(self.seedmap[sid - 1][a - 1])))
        if k == "genglobal":
            try:
                obj.generate()
            except Exception:
                pass
            return None
        if k == "observe":
            return observe(g, obj)
        if k == "stage":
            return stagewise(obj, self.seedmap[sid - 1][a - 1])
        if k == "atomgen":
            return atomgen(g, obj, self.seedmap[sid - 1][a - 1])
        if k == "type":
            return typing(g, obj, a)
        raise ValueError(k)


def _baseline_task(args):
    strings, seedmap, key = args
    g = common.import_repo()
    sid, k, a = key
    rp = Replayer(g, strings, seedmap)
    rp.do({"op": "parse", "slot": 1, "arg": sid})
    return key, rp.do({"op": k, "slot": 1, "arg": a})


def baselines(strings, seedmap, keys, workers=12):
    """each observation in a pristine interpreter (spawn, one task per process)"""
    ctx = mp.get_context("spawn")
    with ctx.Pool(processes=workers, maxtasksperchild=1) as pool:
        res = pool.map(_baseline_task, [(strings, seedmap, k) for k in keys], chunksize=1)
    return {tuple(k): v for k, v in res}


def _replay_chunk(args):
    strings, seedmap, hs, base = args
    g = common.import_repo()
    bad = []
    n_obs = 0
    for h in hs:
        rp = Replayer(g, strings, seedmap)
        for i, op in enumerate(h["h"]):
            try:
                o = rp.do(op)
            except Exception as exc:
                o = ["harness-raises", type(exc).__name__, str(exc)[:100]]
            if o is None:
                continue
            b = h["base"][i]
            key = (b["str"], b["op"], b["arg"])
            n_obs += 1
            want = base.get(key)
            if json.dumps(o, sort_keys=True, default=str) != json.dumps(want, sort_keys=True, default=str):
                bad.append({"history": h["h"], "step": i + 1, "key": list(key), "observed": o, "baseline": want})
                break
    return bad, n_obs


def replay_all(strings, seedmap, hs, base, workers=14):
    chunks = [hs[i::workers * 4] for i in range(workers * 4)]
    ctx = mp.get_context("fork")
    with ctx.Pool(processes=workers) as pool:
        res = pool.map(_replay_chunk, [(strings, seedmap, c, base) for c in chunks if c], chunksize=1)
    bad = [b for r in res for b in r[0]]
    n = sum(r[1] for r in res)
    return bad, n
