"""Exploration of the implementation's choice tree, projection of generated molecules (the refinement
mapping MolGen -> observation) and the tap on the distributions' draw."""
import json
import time

from .rng import ScriptedRNG, RecordingRNG, ScriptExhausted
from .gast import RD_ORD


class Tap:
    """Records every value returned by a distribution's draw_mw (observation point named by C07)."""
    current = None
    installed = False
    forced = None      # list of values answered instead of drawing (specification -> code replay with the targets of a TLC behaviour)

    @classmethod
    def install(cls, g):
        if cls.installed:
            return
        import gbigsmiles.distribution as D

        for name in dir(D):
            k = getattr(D, name)
            if isinstance(k, type) and issubclass(k, D.Distribution) and "draw_mw" in k.__dict__:
                orig = k.__dict__["draw_mw"]

                def wrapped(self_, rng=None, _o=orig):
                    if Tap.forced is not None:
                        if not Tap.forced:
                            raise RuntimeError("replay: more draws than the behaviour of the specification has")
                        v = Tap.forced.pop(0)
                    else:
                        v = _o(self_, rng)
                    cur = Tap.current
                    if cur is not None:
                        cur.events.append({"kind": "draw", "val": float(v), "same_rng": rng is cur,
                                           "dist": type(self_).__name__})
                    return v

                setattr(k, "draw_mw", wrapped)
        cls.installed = True


def mda_floor(x):
    """target (Da, float) -> integer mDa t such that  (M > x*1000) <=> (M > t) for integer M."""
    import math
    if x != x or x in (float("inf"), float("-inf")):
        return 2 ** 30 if x > 0 else -(2 ** 30)
    v = math.floor(x * 1000.0 + 1e-9)
    return max(-(2 ** 30), min(2 ** 30, int(v)))


def near_boundary(x):
    y = x * 1000.0
    return abs(y - round(y)) < 1e-6


def project(mg):
    """Observation of a returned MolGen: atoms, bonds, open descriptors' atoms, flags, mass (mDa)."""
    try:
        mol = mg.mol
    except Exception as exc:  # sanitisation failed
        return {"kind": "unsanitizable", "msg": str(exc)[:200]}
    atoms = [[a.GetAtomicNum(), a.GetFormalCharge(), a.GetIsotope(), int(a.GetIsAromatic()), a.GetTotalNumHs()]
             for a in mol.GetAtoms()]
    bonds = []
    for b in mol.GetBonds():
        i, j = sorted((b.GetBeginAtomIdx() + 1, b.GetEndAtomIdx() + 1))
        bonds.append([i, j, RD_ORD.get(b.GetBondType(), 99)])
    bonds.sort()
    return {"kind": "final", "atoms": atoms, "bonds": bonds,
            "open": [int(bd.atom_bonding_to) + 1 for bd in mg.bond_descriptors],
            "full": bool(mg.fully_generated), "mass": int(round(mg.weight * 1000)),
            "smiles": mg.smiles}


def merge_events(events):
    """rng-level events -> tree steps [(ev, script_values_consumed, alts)]."""
    steps = []
    i = 0
    while i < len(events):
        e = events[i]
        if e["kind"] == "choice":
            ev = {"kind": "choice", "a": e["a"], "p": e["p"], "k": e["k"]}
            steps.append((ev, [e["k"]], e.get("alts", [e["k"]])))
            i += 1
        elif e["kind"] == "member":
            steps.append((dict(e), [], []))
            i += 1
        elif e["kind"] == "q":
            if i + 1 < len(events) and events[i + 1]["kind"] == "draw":
                d = events[i + 1]
                ev = {"kind": "draw", "t": mda_floor(d["val"]), "val": d["val"], "u": e["val"], "fn": e["fn"], "args": e["args"],
                      "same_rng": d["same_rng"], "amb": near_boundary(d["val"])}
                steps.append((ev, [e["val"]], e.get("alts", [e["val"]])))
                i += 2
            else:
                ev = {"kind": "stray", "fn": e["fn"]}
                steps.append((ev, [e["val"]], e.get("alts", [e["val"]])))
                i += 1
        elif e["kind"] == "draw":
            ev = {"kind": "draw", "t": mda_floor(e["val"]), "val": e["val"], "u": -1, "fn": "", "args": [],
                  "same_rng": e["same_rng"], "amb": near_boundary(e["val"])}
            steps.append((ev, [], []))
            i += 1
        else:
            raise ValueError(e)
    return steps


class Tree:
    def __init__(self):
        self.nodes = [{"kids": [], "ev": {"kind": "root"}, "obs": {"kind": "none"}}]
        self.index = {((), 0): 0}
        self.paths = 0
        self.truncated = False
        self.nondeterminism = []

    def add_run(self, steps, obs):
        vals = ()
        cur = 0
        for n, (ev, used, _alts) in enumerate(steps, 1):
            vals = vals + tuple(used)
            key = (vals, n)
            if key in self.index:
                nid = self.index[key]
                old = self.nodes[nid]["ev"]
                if old.get("a") != ev.get("a") or old.get("p") != ev.get("p") or old.get("t") != ev.get("t"):
                    self.nondeterminism.append({"node": nid + 1, "first": old, "again": ev})
            else:
                nid = len(self.nodes)
                self.nodes.append({"kids": [], "ev": ev, "obs": {"kind": "none"}})
                self.index[key] = nid
                self.nodes[cur]["kids"].append(nid + 1)
            cur = nid
        self.nodes[cur]["obs"] = obs
        self.paths += 1
        return cur

    def dump(self, path):
        with open(path, "w") as f:
            json.dump(self.nodes, f)


def run_scripted(obj, script, qgrid=None, projector=project, call=None, min_p=0.0, forced=None):
    rng = ScriptedRNG(script, qgrid, min_p=min_p)
    Tap.current = rng
    Tap.forced = list(forced) if forced is not None else None
    try:
        mg = call(obj, rng) if call else obj.generate(rng=rng)
        obs = projector(mg)
    except ScriptExhausted as exc:
        obs = {"kind": "nontermination", "msg": str(exc)}
    except Exception as exc:
        obs = {"kind": "error", "exc": type(exc).__name__, "msg": str(exc)[:160]}
    finally:
        Tap.current = None
        Tap.forced = None
    return merge_events(rng.events), obs


def explore(obj, max_nodes=20000, max_seconds=60, qgrid=None, projector=project, call=None, max_depth=400, min_p=0.0):
    """Depth-first enumeration of every option of non-zero probability at every call of the generator."""
    tree = Tree()
    stack = [[]]
    t0 = time.time()
    while stack:
        if len(tree.nodes) >= max_nodes or time.time() - t0 > max_seconds:
            tree.truncated = True
            break
        script = stack.pop()
        steps, obs = run_scripted(obj, script, qgrid, projector, call, min_p)
        if len(steps) > max_depth:
            tree.truncated = True
        tree.add_run(steps, obs)
        # alternatives beyond the scripted prefix
        pos = 0
        vals = []
        for ev, used, alts in steps:
            for u in used:
                if pos >= len(script):
                    for alt in alts:
                        if alt != u:
                            stack.append(vals + [alt])
                vals.append(u)
                pos += 1
    return tree


def record_random(obj, seed, projector=project, call=None):
    """One generation under a seeded recording generator -> (steps, obs)."""
    rng = RecordingRNG(seed)
    Tap.current = rng
    try:
        mg = call(obj, rng) if call else obj.generate(rng=rng)
        obs = projector(mg)
    except Exception as exc:
        obs = {"kind": "error", "exc": type(exc).__name__, "msg": str(exc)[:160]}
    finally:
        Tap.current = None
    return merge_events(rng.events), obs
