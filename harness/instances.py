"""Instance families for the generation properties.  Every instance is a structured description (AST);
the string handed to the library is printed from it.  `g(x)` is the zero-width gaussian that forces the
target x (Da) through the library's own draw."""
from .gast import M, S, Mol, Sto, Token, Desc, Dist
import random


def g(x):
    return ("gauss", [x, 0])


def core_instances():
    """Small instances whose whole choice tree is explored. Each exercises particular decision kinds / law classes."""
    I = []
    add = I.append
    # 1 linear homopolymer, prefix and suffix, directed descriptors
    add(M("C[>]", S("[>]", ["[<]CC[>]"], [], "[<]", g(70)), "[<]O", name="lin-homo"))
    # 2 random copolymer, unequal partner weights, zero-weight monomer next to non-zero ones
    add(M("N[>]", S("[>]", ["[<|3|]CC[>]", "[<]CO[>]", "[<|0|]CS[>]"], [], "[<]", g(75)), "[<]F", name="copo-weights"))
    # 3 end-group initiated, unequal end-group weights at start and at capping
    add(M(S("[]", ["[<]CC[>]"], ["[<|2|][H]", "[>]F", "[>|0.5|]O", "[<]Cl"], "[]", g(50)), name="endgroup-start"))
    # 4 branched monomer: several open descriptors with unequal weights, capping
    add(M("C[>]", S("[>]", ["[<]C([>|2|])C[>|0.5|]", "[<]CC[>]"], ["[<][H]", "[<|3|]F"], "[<]", g(45)), "[<]O",
          name="branched-weights"))
    # 5 $-descriptors with ids (AA/BB step growth shape), two ids
    add(M(S("[]", ["[$1]CC[$1]", "[$1]OCCO[$2]", "[$2]C(=O)C[$2]"], ["[$1][H]", "[$2]O", "[$2|0|]N"], "[]", g(100)), name="dollar-ids"))
    # 6 transition lists: A always followed by B, B by A or end group
    add(M(S("[]", ["[<]CC[>|0 0 1 0 0 0|]", "[<]CO[>|2 0 0 0 1 0|]"], ["[<]F", "[>][H]"], "[]", g(80)), name="listed"))
    # 7 all-zero and all-equal weights
    add(M("C[>]", S("[>]", ["[<|0|]CC[>|0|]", "[<|0|]CN[>|0|]"], ["[<|0|][H]", "[<|0|]F"], "[<]", g(40)), "[<]O", name="all-zero"))
    # 8 two stochastic objects without connector (block copolymer), left terminal weight transfer
    add(M("C[>]", S("[>]", ["[<]CC[>]"], [], "[<]", g(40)), S("[>|2|]", ["[<]CO[>]", "[<]C(C)O[>]"], [], "[<]", g(50)), "[<]F",
          name="diblock"))
    # 9 star / graft: a three-arm core monomer and arms
    add(M(S("[]", ["[<]C([<])([<])C[>2]", "[<]CC[>]"], ["[>][H]", "[<2]O", "[<]N"], "[]", g(60)), name="star"))
    # 10 aromatic / charged / bracket / isotope tokens
    add(M("[13CH3][>]", S("[>]", ["[<]CC([>])c1ccccc1", "[<]C[N+](C)(C)C[>]"], [], "[<]", g(150)), "[<][Si](C)(C)C", name="chem-variety"))
    # 11 left terminal with a transition list transferred onto the prefix's descriptor
    add(M("C[>]", S("[>|1 0 3 0|]", ["[<]CC[>]", "[<]CO[>]"], [], "[<]", g(60)), "[<]F", name="left-list"))
    # 12 multi-ring token and a hetero-aromatic
    add(M("C[$]", S("[$]", ["[$]C1CC2CCC1C2[$]", "[$]c1ccc([$])nc1"], ["[$][H]"], "[$]", g(120)), "[$]O", name="rings"))
    # 13 hyper-branched AB2
    add(M(S("[]", ["[<]CC([>])C[>]"], ["[<][H]", "[>]F"], "[]", g(70)), name="ab2"))
    # 14 no suffix: the reserved descriptor stays open (not closed, still a legal return)
    add(M("C[>]", S("[>]", ["[<]CC[>]"], [], "[<]", g(30)), name="open-end"))
    # 15 plain molecules without stochastic object
    add(M("CCO", name="plain"))
    add(M("CC[<]", name="plain-open"))
    return I


def negative_instances():
    """Instances on which the model reaches `error` on some or all paths: the implementation must refuse on exactly those."""
    I = []
    add = I.append
    add(M("C[<]", S("[<]", ["[<]CC[>]"], [], "[>]", g(40)), "[>]O", name="neg-wrong-direction"))
    add(M(S("[<]", ["[<]CC[>]"], ["[<][H]"], "[]", g(40)), name="neg-missing-prefix"))
    add(M("C[$]", S("[>]", ["[<]CC[>]"], [], "[<]", g(40)), "[<]O", name="neg-prefix-mismatch"))
    # transition list putting weight on an incompatible descriptor (own [>]): must raise, never bond
    add(M(S("[]", ["[<]CC[>|0 1 1 0|]"], ["[<]F", "[>][H]"], "[]", g(60)), name="neg-list-incompatible"))
    add(M(S("[]", ["[<]CC[>]"], ["[<]F"], "[]", g(60)), name="neg-no-cap-for-open"))
    add(M("C[>]", S("[>]", ["[<]CC[>]"], [], "[<]", g(40)), "[<2]O", name="neg-suffix-id"))
    add(M("C([>])[>]", S("[>]", ["[<]CC[>]"], [], "[<]", g(40)), "[<]O", name="neg-prefix-two-open"))
    return I


def cumulative_targets(unit_masses_mda, n_units=4):
    """Targets (Da) bracketing cumulative masses of 1..n units of the smallest unit: M_k -+ 1 mDa and M_k."""
    out = set()
    for m in unit_masses_mda:
        for k in range(0, n_units + 1):
            for dlt in (-1, 0, 1):
                out.add((m * k + dlt) / 1000.0)
    return sorted(out)


def random_instance(rnd: random.Random, size="small"):
    """Seeded structured generator of archetypes (VERIF_SEED driven)."""
    monomers_dir = ["[<]CC[>]", "[<]CO[>]", "[<]C(C)C[>]", "[<]CC(C)O[>]", "[<]CS[>]", "[<]C(=O)C[>]", "[<]CC([>])c1ccccc1",
                    "[<]C(N)C[>]", "[<]C(Cl)C[>]", "[<]CC(C#N)[>]"]
    branch_dir = ["[<]C([>])C[>]", "[<]CC([>])C[>]", "[<]N(C[>])C[>]"]
    ends_lt = ["[<][H]", "[<]F", "[<]O", "[<]C", "[<]N", "[<]Cl", "[<]Br"]
    ends_gt = ["[>][H]", "[>]F", "[>]O", "[>]C"]
    wchoices = [None, None, "2", "0.5", "3", "0", "0.25", "10"]

    def w(tok):
        # put random weights onto the descriptors of a token text
        t = Token.of(tok)
        for d in t.descs:
            c = rnd.choice(wchoices)
            if c is not None:
                from fractions import Fraction
                d.w = Fraction(c)
        return t

    kind = rnd.choice(["homo", "copo", "block", "endstart", "branched", "dollar"])
    tgt = rnd.choice([-10, 10, 30, 45, 60, 75]) if size == "small" else rnd.choice([300, 500, 800])
    if size != "small":
        kind = rnd.choice(["homo", "copo", "block", "endstart"])
    if kind == "homo":
        m = Mol([w("C[>]"), Sto(Desc(">"), [w(rnd.choice(monomers_dir))], [], Desc("<"), Dist("gauss", [tgt, 0])), w("[<]O")])
    elif kind == "copo":
        n = rnd.randint(2, 3)
        m = Mol([w("N[>]"), Sto(Desc(">"), [w(x) for x in rnd.sample(monomers_dir, n)], [], Desc("<"), Dist("gauss", [tgt, 0])), w("[<]F")])
    elif kind == "block":
        m = Mol([w("C[>]"), Sto(Desc(">"), [w(rnd.choice(monomers_dir))], [], Desc("<"), Dist("gauss", [tgt, 0])),
                 Sto(Desc(">"), [w(x) for x in rnd.sample(monomers_dir, 2)], [], Desc("<"), Dist("gauss", [tgt, 0])), w("[<]F")])
    elif kind == "endstart":
        m = Mol([Sto(Desc(""), [w(x) for x in rnd.sample(monomers_dir, rnd.randint(1, 2))],
                     [w(x) for x in rnd.sample(ends_lt, 2)] + [w(x) for x in rnd.sample(ends_gt, 2)], Desc(""), Dist("gauss", [tgt, 0]))])
    elif kind == "branched":
        m = Mol([w("C[>]"), Sto(Desc(">"), [w(rnd.choice(branch_dir)), w(rnd.choice(monomers_dir))],
                                [w(x) for x in rnd.sample(ends_lt, 2)], Desc("<"), Dist("gauss", [min(tgt, 60), 0])), w("[<]O")])
    else:
        m = Mol([w("C[$]"), Sto(Desc("$"), [w("[$]CC[$]"), w("[$]C(O)C[$]")], [w("[$][H]"), w("[$]F")], Desc("$"),
                                Dist("gauss", [min(tgt, 60), 0])), w("[$]O")])
    m.name = f"rnd-{kind}-{tgt}"
    return m


def _imp(sym, id=-1, w=None, pre=""):
    from fractions import Fraction
    return Desc(sym, id, Fraction(w) if w is not None else None, None, True, pre)


def extra_instances():
    """Shapes suggested by the design review and by seeded changes: each needs something specific to manifest."""
    I = []
    add = I.append
    add(M("C[>]", S("[>]", ["[<]CC[>]"], [], "[<]", g(-5)), "[<]O", name="negative-target"))
    add(M(S("[]", ["[<]CC[>]"], ["[<][H]", "[>]F"], "[]", g(-30)), name="negative-target-endstart"))
    add(M("C[>]", S("[>]", ["[<]CC[>]", "[<]CO[>]"], [], "[<]", g(1)), "[<]O", name="target-below-one-unit"))
    # first object's reserved descriptor carries a list; the second object's left terminal has none
    add(M("[H][<]", S("[<]", ["[<|0 1|]CC[>]"], [], "[>]", g(40)),
          S("[<]", ["[<]CO[>|1|]", "[<]CN[>|3|]"], ["[>][H]"], "[]", g(50)), name="adjacent-list-handover"))
    # ... and the stale list would point at an end group of the second object
    add(M("[H][<]", S("[<]", ["[<|0 0 0 1|]CC[>]", "[<]CS[>]"], [], "[>]", g(80)),
          S("[<]", ["[<]CO[>]"], ["[<]F", "[>][H]"], "[]", g(50)), name="adjacent-list-into-endgroup"))
    # hand-over to a suffix that offers several compatible descriptors (unequal / equal weights)
    add(M("C[>]", S("[>]", ["[<]CC[>]"], [], "[<]", g(30)), "[<|2|]CC([<|0.5|])C[<|0|]", name="handover-unequal"))
    add(M("C[>]", S("[>]", ["[<]CC[>]"], [], "[<]", g(30)), "[<]CC[<]", name="handover-uniform"))
    add(M("C[>]", S("[>]", ["[<]CC[>]"], [], "[<]", g(30)), "[<|2|]CC([<|0.5|])C", name="handover-unequal-nonzero"))
    # a zero-weight open descriptor next to a non-zero one (open pick, reserve, capping); equal end-group weights
    add(M("C[>]", S("[>]", ["[<]C([>|0|])C[>|2|]"], ["[<][H]", "[<]F"], "[<]", g(30)), "[<]O", name="zero-open"))
    add(M("C[>]", S("[>]", ["[<]C([>|0|])(C[>|2|])C[>|3|]"], ["[<][H]", "[<]F"], "[<]", g(30)), "[<]O", name="zero-open-3"))
    # fully compatible transition lists: unequal and uniform
    add(M("C[$]", S("[$]", ["[$|1 2 1|]CC[$|1 1 1|]"], ["[$][H]"], "[$]", g(50)), "[$]O", name="listed-all-compatible"))
    # directed descriptors with different ids in one object (alternating copolymer)
    add(M(S("[]", ["[<1]CC[>2]", "[<2]CO[>1]"], ["[>1][H]", "[>2][H]", "[<1]F", "[<2]F"], "[]", g(90)), name="directed-ids"))
    # id 0 next to no id
    add(M(S("[]", ["[<]N[>0]", "[<0]O[>]"], ["[<]F", "[>]Cl", "[<0]Br", "[>0]I"], "[]", g(70)), name="id0-vs-none"))
    # listed transition into a heavy end group during growth, branching unit keeps growing
    add(M("N[$]", S("[$]", ["[$]C(C[$|3 0 0 1|])C[$]"], ["[$]C(Br)(Br)Br"], "[$]", g(100)), "[$]O", name="list-into-heavy-endgroup"))
    # isotope labelled hydrogens written before the atom that carries the descriptor
    add(M(S("[]", ["[<]C([2H])([2H])C[>]"], ["[2H]C([2H])([2H])[>]", "[<]F"], "[]", g(60)), name="deuterated"))
    # double / triple bonds towards descriptors: the bond created must have their order; orders must agree to be compatible
    add(M(S("[]", ["[<]=CC=[>]", "[<]=C(C)C=[>]"], ["[<]=O", "[>]=N"], "[]", g(60)), name="double-bond-descriptors"))
    add(M(S("[]", ["[$]#CC#[$]"], ["[$]#N", "[$]#C"], "[]", g(50)), name="triple-bond-descriptors"))
    add(M(S("[]", ["[$]=CC[$]", "[$]C(=[$])C"], ["[$]=O", "[$][H]", "[$]F"], "[]", g(60)), name="mixed-order-descriptors"))
    add(M("C[>]", S("[>]", ["[<]C(=[>2])C[>]", "[<2]=CC[>2]"], ["[<2]=O"], "[<]", g(45)), "[<]O", name="double-bond-graft"))
    # automatic descriptor insertion: prefix, connector and suffix written without descriptors
    add(Mol([Token(["OC", _imp(">", w=0)]), S("[>]", ["[<]CC[>]"], [], "[<]", g(40)),
             Token([_imp("<"), "CO", _imp(">", w=0)]), S("[>]", ["[<]CS[>]"], [], "[<]", g(50)),
             Token([_imp("<"), "F"])], name="implicit-connector"))
    add(Mol([Token(["OC", _imp("$", w=0)]), S("[$]", ["[$]CC[$]"], ["[$][H]"], "[$]", g(30)),
             Token([_imp("$"), "CO", _imp("$", w=0)]), S("[$]", ["[$]CS[$]"], ["[$]F"], "[$]", g(40)),
             Token([_imp("$"), "N"])], name="implicit-connector-dollar"))
    # hydrogens written explicitly as the FIRST atom of a token with further atoms (formyl, N-H): folded into their heavy atom like any other
    add(M("[H]C(=O)O[$]", S("[$]", ["[$]CC[$]"], ["[H]N(C)[$]"], "[$]", g(60)), "[$]N([H])C", name="leading-explicit-H"))
    # ... and with the descriptors on inner atoms (a hydrogen folded away in front shifts no atom index)
    add(M("[H]C([>])(C)CC", S("[>]", ["[H]C([<])([>])CC"], [], "[<]", g(70)), "[<]O", name="leading-explicit-H-descriptor-inside"))
    # weights that differ but are all tiny (and a zero next to a tiny one): still picked in proportion, never "about equal"
    add(M("C[>]", S("[>]", ["[<|1e-9|]CC[>]", "[<|3e-9|]C(F)C[>]"], [], "[<]", g(60)), "[<]O", name="tiny-unequal-weights"))
    add(M("C[>]", S("[>]", ["[<|0|]CC[>]", "[<|1e-9|]C(F)C[>]"], [], "[<]", g(60)), "[<]O", name="zero-next-to-tiny-weight"))
    # an object with fourteen descriptors (two-digit positions in a transition list, descriptor numbers >= 10)
    add(M("C[>]", S("[>]", ["[<]CC[>]", "[<]CO[>]", "[<]CS[>]", "[<]CN[>]", "[<]C(C)C[>]", "[<]CC(F)[>|1 0 0 0 0 0 0 0 2 0 3 0 0 0|]"], ["[<][H]", "[<]F"], "[<]", g(90)), "[<]O",
          name="fourteen-descriptors"))
    # a suffix written behind more than 26 tokens (residue numbers run past the alphabet)
    add(M("C[>]", S("[>]", ["[<]CC[>]"], ["[<]" + "C" * k + "F" for k in range(1, 27)], "[<]", g(60)), "[<]O", name="suffix-behind-27-tokens"))
    # ... a molecule that STARTS with an object, then a connector written without descriptors, then another object
    add(Mol([S("[]", ["[<]CC[>]"], ["[>][H]"], "[<]", g(40)), Token([_imp("<"), "CO", _imp(">", w=0)]),
             S("[>]", ["[<]CS[>]"], [], "[<]", g(50)), Token([_imp("<"), "F"])], name="object-first-implicit-connector"))
    # ... next to terminals that are written with a bond order and / or an id: the inserted descriptor is the terminal's, bond characters and id included
    add(Mol([Token(["N", _imp("$", w=0, pre="=")]), S("=[$]", ["[$]=CC[$]"], ["[$][H]", "[$]=O"], "[]", g(60))], name="implicit-prefix-double-bond-terminal"))
    add(Mol([Token(["OC", _imp(">", id=1, w=0)]), S("[>1]", ["[<1]CC[>1]"], [], "[<1]", g(40)),
             Token([_imp("<", id=1), "CO", _imp(">", id=0, w=0)]), S("[>0]", ["[<0]CS[>0]"], [], "[<0]", g(50)),
             Token([_imp("<", id=0), "F"])], name="implicit-connector-ids"))
    # two kinds of open descriptors when the object is finalised, the one that does NOT fit the right terminal written first: the reserved
    # descriptor is the one handed over, the other kind is capped by its own end group
    add(M("C[<]", S("[<]", ["[>]NC(C[<1|0|])C(=O)[<]"], ["[>1][H]", "[>]O"], "[>]", g(150)), "[>]NC", name="reserve-among-two-kinds"))
    # the only compatible candidate has weight zero while an incompatible descriptor of the same list has another weight
    add(M(S("[]", ["[<]CC([>])c1ccccc1"], ["[<|0|][H]", "[>]N"], "[]", g(110)), name="zero-sole-candidate"))
    # a descriptor in a branch on an atom whose chain continues with a double bond; a list with weight on an end group
    add(M(S("[]", ["[$]CC([$])=O", "CC([$])=NCC[$]"], ["[$][H]"], "[]", g(60)), name="branch-descriptor-then-double-bond"))
    add(M(S("[]", ["[$|1 1 0 2|]CC[$|1 1 0 2|]"], ["[$][H]", "[$]O"], "[]", g(50)), name="list-with-endgroup-entry"))
    # a prefix whose open descriptor is a double / triple bond; the left terminal is written without bond symbol (as the library prints it)
    add(M("CC=[>]", S("[>]", ["[<]=CC[>]", "[<]CC=[>]"], ["[<]F", "[<]=O"], "[]", g(60)), name="double-bond-prefix"))
    add(M("C#[>]", S("[>]", ["[<]#CC[>]", "[<]CC[>]"], ["[<]F"], "[]", g(50)), name="triple-bond-prefix"))
    # the same fragment written in two atom orders inside one object (descriptors address atoms by position in their own text)
    add(M("N[>]", S("[>]", ["[<]CCO[>]", "[<]OCC[>]"], ["[<]F"], "[]", g(100)), name="same-fragment-two-orders"))
    add(M("N[>]", S("[>]", ["[<]CC(C)[>]", "[<]C(C)C[>]"], ["[<]F"], "[]", g(90)), name="same-fragment-two-orders-carbon"))
    # a hydrogen written explicitly inside a token, before the atom that carries a descriptor
    add(M("C[>]", S("[>]", ["[<]C([H])(C)C[>]"], [], "[<]", g(40)), "[<]O", name="explicit-H-before-descriptor"))
    # two $-objects in a row, both with end groups (an end group's descriptor is compatible with the right terminal)
    add(M("C[$]", S("[$]", ["[$]CC[$]"], ["[$][H]"], "[$]", g(30)), S("[$]", ["[$]CO[$|0.5|]", "[$]CS[$]"], ["[$]F"], "[$]", g(40)), "[$]N",
          name="dollar-diblock-endgroups"))
    add(M("C[>]", S("[>]", ["[<]CC[>]"], ["[>]N", "[<][H]"], "[<]", g(30)), S("[>]", ["[<]CO[>|3|]", "[<]CS[>]"], ["[<]F"], "[<]", g(40)), "[<]O",
          name="directed-diblock-endgroups"))
    # three consecutive objects without connector, ids
    add(M("C[>1]", S("[>1]", ["[<1]CC[>1]"], [], "[<1]", g(30)), S("[>1]", ["[<1]CO[>1]"], [], "[<1]", g(30)),
          S("[>1]", ["[<1]CS[>1]"], [], "[<1]", g(40)), "[<1]F", name="triblock-ids"))
    # a descriptor in a branch of its own that follows a sibling branch with atoms: the descriptor's atom is the branch root
    add(M("CC(N)([>])CO", S("[>]", ["[<]CC(C)([>])C(=O)OC", "[<]CC(Cl)([>])"], ["[<][H]"], "[<]", g(120)), "[<]C(C)(O)N", name="descriptor-after-sibling-branch"))
    # two end-group types and a graft unit
    add(M("C[>]", S("[>]", ["[<]CC([>2])C[>]", "[<2]OC[>2]"], ["[<2|2|]F", "[<2][H]", "[<]Cl"], "[<]", g(60)), "[<]O", name="graft"))
    return I


def stop_rule_instances(tier):
    """C07: one instance per target; targets bracket every cumulative mass (M_k - 1 mDa, M_k, M_k + 1 mDa), negative, zero, huge."""
    from rdkit import Chem
    from rdkit.Chem import Descriptors as rdD
    I = []
    K = 3 if tier == "quick" else 6

    def fl(smiles):
        return rdD.HeavyAtomMolWt(Chem.MolFromSmiles(smiles))
    # carbon-only linear chain: the float the implementation computes for k units is reproducible (equal summands)
    exact = [fl("C" + "CC" * k) - fl("C") for k in range(1, K + 1)]
    targets = [-100.0, 0.0, 1e6 if False else 0.0005]
    for x in exact:
        targets += [x - 0.001, x, x + 0.001]
    for t in targets:
        I.append(M("C[>]", S("[>]", ["[<]CC[>]"], [], "[<]", ("gauss", [repr(float(t)), 0])), "[<]C", name=f"stop-lin"))
    # two unit masses, end-group start, caps must not count
    for t in [-1.0, 0.0, 24.021, 24.023, 30.025, 30.027, 48.043, 48.045, 54.047, 54.049, 60.051, 60.053]:
        I.append(M(S("[]", ["[<]CC[>]", "[<]CO[>]"], ["[<]Br", "[>]Br"], "[]", ("gauss", [repr(float(t)), 0])), name="stop-caps"))
    # second object: the mass of the first block must not count
    for t in [0.0, 24.021, 24.023, 48.043, 48.045]:
        I.append(M("CCCCCCCC[>]", S("[>]", ["[<]CC[>]"], [], "[<]", g(30)), S("[>]", ["[<]CC[>]"], [], "[<]", ("gauss", [repr(float(t)), 0])),
                   "[<]O", name="stop-second-block"))
    return I


def chem_instances(tier):
    I = []
    add = I.append
    add(M("c1ccccc1C[$]", S("[$]", ["[$]CC([$])c1ccc(Cl)cc1", "[$]CC([$])C(=O)OC"], ["[$]Br"], "[$]", g(200)), "[$][H]", name="chem-styrene-acrylate"))
    add(M(S("[]", ["[<]C[N+](C)(C)CC[>]", "[<]CC(C(=O)[O-])[>]"], ["[<][H]", "[>]O"], "[]", g(150)), name="chem-charged"))
    add(M("C[>]", S("[>]", ["[<][Si](C)(C)O[>]"], [], "[<]", g(150)), "[<][Si](C)(C)C", name="chem-siloxane"))
    add(M(S("[]", ["[$]c1cc2ccccc2cc1[$]", "[$]C1CCC([$])CC1"], ["[$][13CH3]", "[$]F"], "[]", g(200)), name="chem-polycyclic"))
    add(M("S(=O)(=O)(O)C[<]", S("[<]", ["[>]NC(=O)C[<]", "[>]N(C)C(=O)C[<]"], [], "[>]", g(120)), "[>]OC(C)(C)C", name="chem-amide"))
    # descriptors in a branch of their own inside a side chain (branch depth 2 and 3): the descriptor's atom is the atom the branch hangs on,
    # not the root of the token
    add(M("C[>]", S("[>]", ["[<]CC(C(=O)OCC([>2])C)[>]", "[<2]CO[>2]"], ["[<2]F", "[<][H]"], "[<]", g(150)), "[<]O", name="chem-descriptor-at-depth-2"))
    add(M("CC(C(=O)OCC([>])C)C", S("[>]", ["[<]CC(C(=O)OC(C(C)([>]))C)[>]", "[<]CC[>]"], ["[<][H]"], "[<]", g(160)), "[<]N", name="chem-descriptor-at-depth-3"))
    # descriptors on sulfur / phosphorus in a higher valence state (sulfonyl, sulfinyl, phosphoryl): their hydrogen count is the written one
    add(M("C[$]", S("[$]", ["[$]CC([$])[$]"], ["[$]S(=O)(=O)C", "[$]S(=O)C", "[$]P(=O)(C)C"], "[$]", g(40)), "[$]S(=O)(=O)c1ccc(C)cc1", name="chem-hypervalent-S-P"))
    # tokens of a hundred atoms and more (a written-out macro-initiator, a large end group): residues are whole copies whatever their size
    big = "CC(c1ccccc1)" * 13
    add(M(big + "[>]", S("[>]", ["[<]CC[>]"], ["[<]" + "C(C)C" * 34], "[<]", g(40)), "[<]O", name="chem-hundred-atom-tokens"))
    return I


def _sto_targets(mol, K):
    """target grid per stochastic element: negative, zero and +-1 mDa around k unit masses."""
    out = {}
    for i, e in enumerate(mol.elems, 1):
        if isinstance(e, Sto):
            ms = sorted({t.chem()["mass"] for t in e.rep if t.chem()["mass"] > 0})
            ts = {-5000, 0}
            for m in ms[:2]:
                for k in range(1, K + 1):
                    ts |= {k * m - 1, k * m, k * m + 1}
            out[i] = sorted(ts)
    return out


def mc_instances(prop, tier):
    """(mol, targets, expect_wellposed) for design-level model checking."""
    K = 2 if tier == "quick" else 3
    names_wellposed = {"lin-homo", "copo-weights", "endgroup-start", "branched-weights", "dollar-ids", "listed", "all-zero",
                       "diblock", "left-list", "ab2", "directed-ids", "graft", "triblock-ids", "adjacent-list-handover",
                       "implicit-connector"}
    pool = {m.name: m for m in core_instances() + extra_instances() + negative_instances()}
    pick = ["lin-homo", "copo-weights", "endgroup-start", "branched-weights", "listed", "all-zero", "diblock", "left-list",
            "directed-ids", "adjacent-list-handover", "implicit-connector", "graft", "neg-list-incompatible", "neg-no-cap-for-open",
            "star"]
    if tier == "thorough":
        pick += ["dollar-ids", "ab2", "triblock-ids", "id0-vs-none", "list-into-heavy-endgroup"]
    out = []
    for n in pick:
        m = pool[n]
        out.append((m, _sto_targets(m, K if n not in ("star", "branched-weights", "graft", "ab2", "dollar-ids", "list-into-heavy-endgroup") else 1),
                    n in names_wellposed))
    return out


def scaled(mol, factor=8, floor=25):
    """Copy of an instance with every forced target multiplied (long runs for recorded random streams)."""
    import copy
    m = copy.deepcopy(mol)
    for e in m.elems:
        if isinstance(e, Sto) and e.dist is not None and e.dist.fam == "gauss":
            x = float(e.dist.par[0])
            e.dist.par[0] = max(x, floor) * factor
    for t in m.tokens():
        if hasattr(t, "_chem"):
            del t._chem
    m.name = mol.name + "-long"
    return m
