"""C13 / C14: ensembles. Systems are built from component ASTs; System.generator / System.generate are explored under the
scripted generator (all choice sequences for tiny systems) or recorded random streams, and validated by TLC against
spec/Ensemble.tla (EnsembleTrace.tla)."""
import json
import os
from fractions import Fraction
from functools import reduce
from math import gcd

from . import common, explore as X
from .common import tla, run_tlc, MachineryError
from .gast import Mol, instance_constants


class SystemSpec:
    """components: list of (Mol, percent:int); system mass S (Da). Text: all but the last component carry a percentage,
    the last one the absolute mass that is its percentage of S."""

    def __init__(self, comps, S, name=""):
        self.comps = comps
        self.S = S
        self.name = name

    def text(self):
        out = ""
        for i, (m, p) in enumerate(self.comps):
            if i < len(self.comps) - 1:
                out += m.text() + f".|{p}%|"
            else:
                out += m.text() + f".|{repr(float(Fraction(p, 100) * Fraction(repr(float(self.S)))))}|"
        return out

    def constants(self):
        masses = []
        comps = []
        for m, p in self.comps:
            Elems, Tok = instance_constants(m)
            mass = sum(t["mass"] for t in Tok) if all(e["kind"] == "tok" for e in Elems) else 0
            masses.append(mass)
            # forced targets of the member's stochastic objects (zero-width gaussians), for model checking
            tg = [int(round(float(e.dist.par[0]) * 1000)) if (not hasattr(e, "items") and e.dist is not None and e.dist.fam == "gauss") else 0 for e in m.elems]
            comps.append({"elems": Elems, "tok": Tok, "frac": int(p), "mred": 1, "tgt": tg})
        fixed = all(x > 0 for x in masses)
        if fixed:
            g = reduce(gcd, masses)
            for c, x in zip(comps, masses):
                c["mred"] = x // g
        return comps, fixed


def common_numerators(p):
    fr = [Fraction(n, d) if d > 0 and n >= 0 else None for n, d in p]
    if any(f is None for f in fr):
        return [-1] * len(p)
    D = reduce(lambda a, b: a * b // gcd(a, b), [f.denominator for f in fr], 1)
    if D > 10 ** 6:
        return [-1] * len(p)
    return [int(f * D) for f in fr]


def iterate_call(system, rng):
    it = type(system).generator.fget(system, rng)
    for mg in it:
        o = X.project(mg)
        o2 = {"kind": "member"}
        if o["kind"] == "final":
            o2.update({k: o[k] for k in ("atoms", "bonds", "open", "full", "mass", "smiles")})
        else:
            o2.update({"atoms": [], "bonds": [], "open": [], "full": False, "mass": -1, "smiles": "unsanitizable"})
        rng.events.append(o2)
    return None


def single_call(system, rng):
    mg = system.generate(rng=rng)
    o = X.project(mg)
    o2 = {"kind": "member"}
    o2.update({k: o.get(k, []) for k in ("atoms", "bonds", "open", "full", "mass", "smiles")})
    rng.events.append(o2)
    return None


def stop_projector(_):
    return {"kind": "stop"}


def validate(spec: SystemSpec, tree: X.Tree, single=False, tag="ens", timeout=600):
    comps, fixed = spec.constants()
    with common.Scratch(tag) as d:
        with open(os.path.join(d, "MC.tla"), "w") as f:
            f.write("---- MODULE MC ----\nEXTENDS EnsembleTrace\n")
            f.write("MCComps == " + tla(comps) + "\n")
            f.write(f"MCSysMass == {int(round(spec.S * 1000))}\n====\n")
        slim = []
        for n in tree.nodes:
            ev = n["ev"]
            if ev["kind"] == "choice":
                e2 = {"kind": "choice", "a": ev["a"], "p": ev["p"], "k": ev["k"], "pn": common_numerators(ev["p"])}
            elif ev["kind"] == "draw":
                e2 = {"kind": "draw", "t": ev["t"]}
            elif ev["kind"] == "member":
                e2 = {k: ev[k] for k in ("kind", "atoms", "bonds", "open", "full", "mass")}
            else:
                e2 = {"kind": ev["kind"]}
            o = n["obs"]
            slim.append({"kids": n["kids"], "ev": e2, "obs": {"kind": o["kind"]}})
        tf = os.path.join(d, "tree.json")
        with open(tf, "w") as f:
            json.dump(slim, f)
        cfg = os.path.join(d, "MC.cfg")
        with open(cfg, "w") as f:
            f.write("SPECIFICATION Spec\nCONSTANTS\n Comps <- MCComps\n SysMass <- MCSysMass\nINVARIANT Diagnose\nINVARIANT LeafSummary\n")
        r = run_tlc(d, "MC", cfg=cfg, workers=1, env={"TRACE_FILE": tf, "SINGLE": "1" if single else "0"}, timeout=timeout, xmx="2g")
    if not r.ok:
        return {"error": r.tail(30), "diags": [], "reached": 0, "nodes": len(tree.nodes), "leaves": [], "states": 0, "fixed": fixed}
    diags = [x for x in r.printed if "failed" in x]
    leaves = [x for x in r.printed if "leaf" in x]
    return {"error": None, "diags": diags, "reached": r.distinct, "nodes": len(tree.nodes), "leaves": leaves, "states": r.generated,
            "fixed": fixed}


def model_check(spec: SystemSpec, tag="ensmc", timeout=900):
    """TLC on EnsembleMC: all behaviours of the ensemble machine for this system"""
    comps, fixed = spec.constants()
    with common.Scratch(tag) as d:
        with open(os.path.join(d, "MC.tla"), "w") as f:
            f.write("---- MODULE MC ----\nEXTENDS EnsembleRefinesFC\n")
            f.write("MCComps == " + tla(comps) + "\n")
            f.write(f"MCSysMass == {int(round(spec.S * 1000))}\n====\n")
        cfg = os.path.join(d, "MC.cfg")
        with open(cfg, "w") as f:
            f.write("SPECIFICATION HSpec\nCONSTANTS\n Comps <- MCComps\n SysMass <- MCSysMass\nINVARIANT IStop\nINVARIANT IAccounted\n"
                    "INVARIANT StartsInsideAccumulation\nINVARIANT FCTheorem\n"
                    "PROPERTY OnlyCompleteMembers\nPROPERTY AccumulatesMemberMass\nPROPERTY ImplementsFirstCrossing\nPROPERTY Termination\n")
        r = run_tlc(d, "MC", cfg=cfg, workers=2, timeout=timeout, xmx="3g")
    return r


def export_behaviours(spec: SystemSpec, tag="ensmch", timeout=300, simulate=None):
    """TLC on EnsembleMCH: decision histories of the terminal states of the ensemble machine."""
    import re as _re
    comps, fixed = spec.constants()
    with common.Scratch(tag) as d:
        with open(os.path.join(d, "MC.tla"), "w") as f:
            f.write("---- MODULE MC ----\nEXTENDS EnsembleMCH\n")
            f.write("MCComps == " + tla(comps) + "\n")
            f.write(f"MCSysMass == {int(round(spec.S * 1000))}\n====\n")
        cfg = os.path.join(d, "MC.cfg")
        with open(cfg, "w") as f:
            f.write("SPECIFICATION HSpec\nCONSTANTS\n Comps <- MCComps\n SysMass <- MCSysMass\nINVARIANT HExport\n")
            if not simulate:
                f.write("VIEW HView\n")
        extra = ["-simulate", f"num={simulate[0]}", "-depth", str(simulate[1]), "-seed", str(common.seed() + 5)] if simulate else []
        r = run_tlc(d, "MC", cfg=cfg, workers=1, timeout=timeout, xmx="3g", extra=extra)
        if simulate:
            r.ok = r.invariant_violated() is None and "Error:" not in r.out
    seen, out = set(), []
    for b in r.printed:
        if "hist" in b:
            key = json.dumps(b["hist"])
            if key not in seen:
                seen.add(key)
                out.append(b)
    return out, r


def replay_behaviours(sysobj, behs):
    """System.generator stepped through behaviours of the specification -> one tree of what the code did"""
    tree = X.Tree()
    for b in behs:
        script = [int(h[1]) for h in b["hist"] if h[0] == "c"]
        forced = [(int(h[1]) + 0.5) / 1000.0 for h in b["hist"] if h[0] == "d"]
        steps, obs = X.run_scripted(sysobj, script, projector=stop_projector, call=iterate_call, forced=forced)
        steps = [(ev, used if used or ev["kind"] != "draw" else [("t", ev["t"])], alts) for ev, used, alts in steps]
        tree.add_run(steps, obs)
    return tree
