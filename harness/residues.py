"""Residue numbering against spec/Residues.tla (not a listed property; reported as divergences in the evidence of C05).

TLC checks the theorems over every small system shape (ResiduesMC) and evaluates the numbering on the shapes of the
instance library and of two-component systems built from it; the harness compares with the numbers the parsed tokens
carry and with the residue number / name every atom of a generated molecule carries.
"""
import os

import numpy as np

from . import common
from .common import Scratch, run_tlc, tla, MachineryError
from .gast import Token


def shape(mol):
    out = []
    for e in mol.elems:
        if isinstance(e, Token):
            out.append({"kind": "tok", "nd": sum(1 for d in e.descs if not d.implicit), "nrep": 0, "nend": 0})
        else:
            out.append({"kind": "sto", "nd": 0, "nrep": len(e.rep), "nend": len(e.end)})
    return out


def theorems(timeout=900):
    with Scratch("residuesmc") as d:
        with open(os.path.join(d, "MC.tla"), "w") as f:
            f.write("---- MODULE MC ----\nEXTENDS ResiduesMC\n====\n")
        cfg = os.path.join(d, "MC.cfg")
        with open(cfg, "w") as f:
            f.write("SPECIFICATION Spec\nCONSTANTS\n MaxLen = 3\n MaxComps = 2\nCHECK_DEADLOCK FALSE\nINVARIANT T1\nINVARIANT T2\nINVARIANT T3\nINVARIANT T4\n")
        r = run_tlc(d, "MC", cfg=cfg, workers=6, timeout=timeout, xmx="3g")
    if not r.ok:
        print(r.tail(25))
        raise MachineryError("ResiduesMC: " + str(r.invariant_violated() or "TLC failed"))
    return r


def spec_numbers(systems, timeout=600):
    """systems: list of lists of shapes; returns per system the list (per component) of [elem, role, idx, num] records, and the name table"""
    with Scratch("residuesev") as d:
        with open(os.path.join(d, "MC.tla"), "w") as f:
            f.write("---- MODULE MC ----\nEXTENDS Residues, TLC, Json\nVARIABLE x\n")
            f.write("MCAll == " + tla(systems) + "\n")
            f.write('Init == x = 0 /\\ PrintT(ToJson([names |-> [n \\in 1..80 |-> ResName(n - 1)]]))\n'
                    '        /\\ \\A i \\in 1..Len(MCAll) : PrintT(ToJson([sys |-> i, nums |-> SystemNumbering(MCAll[i]), unique |-> SystemUnique(MCAll[i])]))\n'
                    'Next == UNCHANGED x\nSpec == Init /\\ [][Next]_x\n====\n')
        cfg = os.path.join(d, "MC.cfg")
        with open(cfg, "w") as f:
            f.write("SPECIFICATION Spec\nCHECK_DEADLOCK FALSE\n")
        r = run_tlc(d, "MC", cfg=cfg, workers=1, timeout=timeout, xmx="3g")
    if not r.ok:
        print(r.tail(25))
        raise MachineryError("TLC failed evaluating Residues on the instances")
    out, names = {}, None
    for rec in r.printed:
        if isinstance(rec, dict) and "sys" in rec:
            out[rec["sys"]] = rec
        elif isinstance(rec, dict) and "names" in rec:
            names = rec["names"]
    if len(out) != len(systems) or names is None:
        raise MachineryError("Residues: results missing")
    return [out[i + 1] for i in range(len(systems))], names


def impl_numbers(molobj):
    from gbigsmiles.stochastic import Stochastic
    out = {}
    toks = {}
    for k, e in enumerate(molobj._elements, 1):
        if isinstance(e, Stochastic):
            for i, t in enumerate(e.repeat_tokens, 1):
                out[(k, "rep", i)] = int(t.res_id)
                toks[int(t.res_id)] = t
            for i, t in enumerate(e.end_tokens, 1):
                out[(k, "end", i)] = int(t.res_id)
                toks[int(t.res_id)] = t
        else:
            out[(k, "tok", 1)] = int(e.res_id)
            toks[int(e.res_id)] = e
    return out, toks


def run(g, mols, seed=0):
    th = theorems()
    usable = []
    for m in mols:
        try:
            obj = g.Molecule(m.text())
        except Exception:
            continue
        if len(obj._elements) != len(m.elems):
            continue        # parsing is C02's matter
        usable.append((m, obj))
    systems = [[shape(m)] for m, _ in usable]
    pairs = []
    closed = [(m, o) for m, o in usable if "." not in m.text()]
    for i in range(0, min(len(closed) - 1, 60), 2):
        pairs.append((closed[i], closed[i + 1]))
    systems += [[shape(a[0]), shape(b[0])] for a, b in pairs]
    spec, names = spec_numbers(systems)
    div = []
    n_tok = n_atoms = n_sys = n_shared = 0
    for (m, obj), rec in zip(usable, spec[:len(usable)]):
        exp = {(r["elem"], r["role"], r["idx"]): r["num"] for r in rec["nums"][0]}
        got, toks = impl_numbers(obj)
        n_tok += len(got)
        if got != exp:
            bad = sorted(k for k in set(got) | set(exp) if got.get(k) != exp.get(k))[:3]
            div.append(f"{m.text()}: residue numbers {[(k, got.get(k), exp.get(k)) for k in bad]} (key, library, Residues.tla)")
            continue
        # generated atoms carry the number of a token that has such an atom, and the name of that number
        try:
            mg = obj.generate(rng=np.random.default_rng(seed + 3))
            mol = mg.mol
        except Exception:
            continue
        for a in mol.GetAtoms():
            info = a.GetPDBResidueInfo()
            if info is None:
                div.append(f"{m.text()}: atom {a.GetIdx()} of the generated molecule carries no residue information")
                break
            n_atoms += 1
            num = info.GetResidueNumber()
            if num not in toks:
                div.append(f"{m.text()}: atom {a.GetIdx()} carries the residue number {num}, which no token has")
                break
            if info.GetResidueName().strip() != names[num] if num < len(names) else False:
                div.append(f"{m.text()}: residue number {num} is named {info.GetResidueName()!r}, Residues.tla gives {names[num]!r}")
                break
            if a.GetSymbol() not in {x.GetSymbol() for x in _token_atoms(toks[num])}:
                div.append(f"{m.text()}: atom {a.GetSymbol()}{a.GetIdx()} carries residue number {num} of token {toks[num]}, which has no such atom")
                break
    for (a, b), rec in zip(pairs, spec[len(usable):]):
        text = a[0].text() + ".|50%|" + b[0].text() + ".|500|"
        try:
            s = g.System(text)
        except Exception:
            continue
        if len(s._molecules) != 2:
            continue
        n_sys += 1
        for c, molobj in enumerate(s._molecules):
            exp = {(r["elem"], r["role"], r["idx"]): r["num"] for r in rec["nums"][c]}
            got, _ = impl_numbers(molobj)
            if got != exp:
                bad = sorted(k for k in set(got) | set(exp) if got.get(k) != exp.get(k))[:3]
                div.append(f"System({text}): component {c + 1}: residue numbers {[(k, got.get(k), exp.get(k)) for k in bad]} (key, library, Residues.tla)")
        if not rec["unique"]:
            n_shared += 1
    return div, {"module": "spec/Residues.tla", "theorem_states": th.distinct, "molecules": len(usable), "token_numbers_compared": n_tok, "atoms_of_generated_molecules_checked": n_atoms,
                 "two_component_systems": n_sys, "systems_where_two_tokens_share_a_number_(as_specified)": n_shared, "divergences": len(div)}


def _token_atoms(tok):
    from rdkit import Chem
    m = Chem.MolFromSmiles(tok.generate_smiles_fragment())
    return list(m.GetAtoms()) if m is not None else []
