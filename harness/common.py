"""Shared infrastructure of the verification harness.

* scratch directories (created per run, removed afterwards, never under /verif or /repo),
* the TLC driver (explicit JVM so that parallel runs do not each claim all memory),
* verdict bookkeeping: violations, known findings, evidence files, exit codes.

Exit codes of every check: 0 = property held on everything explored (KNOWN-FINDING lines may be
printed), 1 = at least one violation that known_findings.json does not list (one VIOLATION line
each), 2 = machinery failure (nothing is claimed).
"""
import json
import os
import re
import shutil
import subprocess
import sys
import tempfile
import time
import warnings

VERIF = os.path.dirname(os.path.dirname(os.path.abspath(__file__)))
SPEC = os.path.join(VERIF, "spec")
REPO = os.environ.get("VERIF_REPO", "/repo")
# trial runs against a seeded change (tools/try_mutant.sh) redirect these two so that committed evidence is never overwritten
EVIDENCE = os.environ.get("VERIF_EVIDENCE_DIR", os.path.join(VERIF, "evidence"))
REPLAYS = os.environ.get("VERIF_REPLAYS_DIR", os.path.join(VERIF, "replays"))
REPLAY_KEY = None     # set by ./check --replay: only this class of violation is reported
REPLAY_SOURCE = None  # the replay file being replayed (named in the VIOLATION line of a replay)
KNOWN = os.path.join(VERIF, "known_findings.json")
JAR = "/opt/veriftools/tla/tla2tools.jar"
CM = "/opt/veriftools/tla/CommunityModules-deps.jar"

os.environ.setdefault("PYTHONHASHSEED", "0")
os.environ.setdefault("GBIGSMILES_VERIF", "1")


def seed():
    try:
        return int(os.environ.get("VERIF_SEED", "0"))
    except ValueError:
        return 0


def import_repo():
    """Import gbigsmiles from the *current working tree* of the repository."""
    src = os.path.join(REPO, "src")
    if src not in sys.path:
        sys.path.insert(0, src)
    warnings.filterwarnings("ignore")
    from rdkit import RDLogger

    RDLogger.DisableLog("rdApp.*")
    import gbigsmiles  # noqa

    got = os.path.realpath(os.path.dirname(gbigsmiles.__file__))
    want = os.path.realpath(os.path.join(src, "gbigsmiles"))
    if got != want:
        raise MachineryError(f"gbigsmiles imported from {got}, expected {want}")
    return gbigsmiles


class MachineryError(Exception):
    pass


class Scratch:
    """Per-run scratch directory outside /verif and /repo; removed on exit."""

    def __init__(self, tag):
        base = os.environ.get("TMPDIR", "/tmp")
        self.path = tempfile.mkdtemp(prefix=f"gbsverif_{tag}_", dir=base)

    def __enter__(self):
        return self.path

    def __exit__(self, *a):
        if not os.environ.get("VERIF_KEEP_SCRATCH"):
            shutil.rmtree(self.path, ignore_errors=True)


# --------------------------------------------------------------------------------------------
# TLAPS driver (proof modules under spec/proofs)
# --------------------------------------------------------------------------------------------
def run_tlapm(module, timeout=900):
    """Run the TLA+ proof system on spec/proofs/<module>.tla in a scratch copy (no cached fingerprints).
    Returns (number of obligations proved, output); raises MachineryError unless ALL obligations are proved."""
    with Scratch("tlapm") as d:
        for f in os.listdir(os.path.join(SPEC, "proofs")):
            if f.endswith(".tla"):
                shutil.copy(os.path.join(SPEC, "proofs", f), d)
        t0 = time.time()
        try:
            pr = subprocess.run(["tlapm", "--cleanfp", "--strict", "-I", SPEC, module + ".tla"], cwd=d, stdout=subprocess.PIPE, stderr=subprocess.STDOUT,
                                timeout=timeout, text=True)
        except subprocess.TimeoutExpired:
            raise MachineryError(f"tlapm timed out on {module}")
        out = pr.stdout
    m = re.search(r"All (\d+) obligations? proved", out)
    if pr.returncode != 0 or not m:
        print(out[-3000:])
        raise MachineryError(f"tlapm did not prove every obligation of {module}")
    return int(m.group(1)), out, time.time() - t0


# --------------------------------------------------------------------------------------------
# Apalache driver (symbolic checker; used for inductive invariants of the small arithmetic machines)
# --------------------------------------------------------------------------------------------
def run_apalache(module, init, inv, length, cinit=None, timeout=600):
    """apalache-mc check on a scratch copy of spec/<module>.tla (+ the modules it instantiates). Returns (ok, wall, tail)."""
    with Scratch("apa") as d:
        for sub in ("", "apalache"):
            for f in os.listdir(os.path.join(SPEC, sub)):
                if f.endswith(".tla"):
                    shutil.copy(os.path.join(SPEC, sub, f), d)
        cmd = ["apalache-mc", "check", f"--init={init}", f"--inv={inv}", f"--length={length}", f"--out-dir={d}/out"]
        if cinit:
            cmd.append(f"--cinit={cinit}")
        cmd.append(module + ".tla")
        t0 = time.time()
        try:
            pr = subprocess.run(cmd, cwd=d, stdout=subprocess.PIPE, stderr=subprocess.STDOUT, timeout=timeout, text=True)
        except subprocess.TimeoutExpired:
            raise MachineryError(f"apalache timed out on {module}")
        out = pr.stdout
    ok = pr.returncode == 0 and "The outcome is: NoError" in out
    return ok, time.time() - t0, "\n".join(out.splitlines()[-12:])


def apalache_first_crossing(strict):
    """the inductive invariant of FirstCrossing, symbolically, for all amounts and limits: holds initially, preserved by every step"""
    c = "CInitStrict" if strict else "CInitLoose"
    ok0, w0, t0 = run_apalache("FirstCrossingApa", "Init", "IndInv", 0, cinit=c)
    ok1, w1, t1 = run_apalache("FirstCrossingApa", "IndInit", "IndInv", 1, cinit=c)
    if not (ok0 and ok1):
        print(t0 if not ok0 else t1)
        raise MachineryError("apalache: IndInv of FirstCrossing is not inductive")
    return round(w0 + w1, 1)


# --------------------------------------------------------------------------------------------
# TLC driver
# --------------------------------------------------------------------------------------------
class TlcResult:
    def __init__(self, rc, out, wall):
        self.rc = rc
        self.out = out
        self.wall = wall
        self.generated = 0
        self.distinct = 0
        self.depth = 0
        m = None
        for m in re.finditer(r"(\d+) states generated, (\d+) distinct states found", out):
            pass
        if m:
            self.generated = int(m.group(1))
            self.distinct = int(m.group(2))
        m = re.search(r"The depth of the complete state graph search is (\d+)", out)
        if m:
            self.depth = int(m.group(1))
        self.ok = rc == 0 and "Model checking completed. No error has been found." in out
        self.printed = self._printed(out)
        self.errors = [l for l in out.splitlines() if l.startswith("Error:")]

    @staticmethod
    def _printed(out):
        """Lines printed with PrintT(ToJson(x)) (double encoded JSON strings)."""
        res = []
        for line in out.splitlines():
            line = line.strip()
            if line.startswith('"') and line.endswith('"') and len(line) > 2:
                try:
                    inner = json.loads(line)
                    res.append(json.loads(inner))
                except Exception:
                    continue
        return res

    def invariant_violated(self):
        m = re.search(r"Invariant (\S+) is violated", self.out)
        if m:
            return m.group(1)
        m = re.search(r"Action property (\S+) is violated", self.out)
        if m:
            return m.group(1)
        m = re.search(r"Temporal properties were violated", self.out)
        if m:
            return "temporal"
        return None

    def coverage(self):
        """Per-action counts from -coverage output: {action: (distinct, total)}."""
        cov = {}
        for m in re.finditer(r"<(\w+) line \d+, col \d+ to line \d+, col \d+ of module (\w+)>: (\d+):(\d+)", self.out):
            name = m.group(1)
            cov[name] = (cov.get(name, (0, 0))[0] + int(m.group(3)), cov.get(name, (0, 0))[1] + int(m.group(4)))
        return cov

    def tail(self, n=40):
        return "\n".join(self.out.splitlines()[-n:])


def run_tlc(workdir, module, cfg=None, workers=1, timeout=900, env=None, extra=(), xmx="3g",
            deadlock=False, coverage=False):
    """Run TLC on workdir/module.tla. Specs under /verif/spec are found through the TLA library path."""
    meta = os.path.join(workdir, "meta_" + module)
    cmd = ["java", f"-Xmx{xmx}", "-Xss64m", "-XX:+UseParallelGC", f"-DTLA-Library={SPEC}",
           "-cp", f"{JAR}:{CM}", "tlc2.TLC", "-workers", str(workers), "-metadir", meta,
           "-noGenerateSpecTE"]
    if not deadlock:
        cmd.append("-deadlock")
    if coverage:
        cmd += ["-coverage", "1"]
    if cfg:
        cmd += ["-config", cfg]
    cmd += list(extra)
    cmd.append(module)
    e = dict(os.environ)
    e.pop("JAVA_TOOL_OPTIONS", None)
    if env:
        e.update(env)
    t0 = time.time()
    try:
        p = subprocess.run(cmd, cwd=workdir, env=e, stdout=subprocess.PIPE, stderr=subprocess.STDOUT,
                           timeout=timeout, text=True)
        out, rc = p.stdout, p.returncode
    except subprocess.TimeoutExpired as exc:
        out = (exc.stdout or b"").decode() if isinstance(exc.stdout, bytes) else (exc.stdout or "")
        out += "\nTLC TIMEOUT"
        rc = 124
    shutil.rmtree(meta, ignore_errors=True)
    return TlcResult(rc, out, time.time() - t0)


def tla_str(s):
    return '"' + s.replace("\\", "\\\\").replace('"', '\\"') + '"'


def tla(v):
    """Python value -> TLA+ literal (ints, strs, bools, lists->sequences, tuples->sequences,
    dicts->records, sets->sets)."""
    if isinstance(v, bool):
        return "TRUE" if v else "FALSE"
    if isinstance(v, int):
        return str(v) if v >= 0 else f"(0 - {-v})"
    if isinstance(v, str):
        return tla_str(v)
    if isinstance(v, (list, tuple)):
        return "<<" + ", ".join(tla(x) for x in v) + ">>"
    if isinstance(v, (set, frozenset)):
        return "{" + ", ".join(sorted(tla(x) for x in v)) + "}"
    if isinstance(v, dict):
        if not v:
            raise ValueError("empty record")
        return "[" + ", ".join(f"{k} |-> {tla(x)}" for k, x in v.items()) + "]"
    raise TypeError(f"cannot print {type(v)} as TLA+")


# --------------------------------------------------------------------------------------------
# Verdicts
# --------------------------------------------------------------------------------------------
def load_known():
    try:
        with open(KNOWN) as f:
            data = json.load(f)
    except FileNotFoundError:
        return {}
    res = {}
    for e in data.get("findings", []):
        res[(e["property"], e["key"])] = e
    return res


class Verdict:
    """Collects violations of one property in one run, separates known findings, writes the
    evidence file and produces the exit code."""

    def __init__(self, prop, tier, level="model_checking"):
        self.prop = prop
        self.tier = tier
        self.level = level
        self.t0 = time.time()
        self.violations = []  # (key, what, replay_payload)
        self.coverage = {}
        self.assumptions = []
        self.notes = []

    def violation(self, key, what, replay=None):
        """key: stable class signature of the failing input / call site / history."""
        self.violations.append((key, what, replay))

    def finish(self):
        known = load_known()
        os.makedirs(EVIDENCE, exist_ok=True)
        os.makedirs(REPLAYS, exist_ok=True)
        new, kn = [], {}
        for key, what, replay in self.violations:
            if REPLAY_KEY is not None and key != REPLAY_KEY:
                continue
            if (self.prop, key) in known:
                kn.setdefault(key, []).append(what)
            else:
                new.append((key, what, replay))
        for key, whats in kn.items():
            print(f"KNOWN-FINDING: property={self.prop} key={key} occurrences={len(whats)} "
                  f"{known[(self.prop, key)]['what']} e.g. {whats[0][:300]}")
        seen = {}
        for key, what, replay in new:
            if key in seen:
                seen[key][1] += 1
                continue
            n = len(seen)
            path = os.path.join(REPLAYS, f"{self.prop}_{self.tier}_{n}.json")
            with open(path, "w") as f:
                json.dump({"property": self.prop, "key": key, "what": what, "replay": replay}, f, indent=1,
                          default=str)
            seen[key] = [path, 1, what]
        for key, (path, n, what) in seen.items():
            print(f"VIOLATION property={self.prop} replay={REPLAY_SOURCE or path}")
            print(f"  key={key} occurrences={n} {what[:1000]}")
        cov = dict(self.coverage)
        cov.setdefault("samples", ["(none recorded)"])
        ev = {
            "property_id": self.prop,
            "tier": self.tier,
            "seed": seed(),
            "level": self.level,
            "coverage": cov,
            "assumptions": self.assumptions,
            "wall_s": round(time.time() - self.t0, 2),
            "violations": len(new),
            "known_findings_hit": {k: len(v) for k, v in kn.items()},
            "notes": self.notes,
        }
        with open(os.path.join(EVIDENCE, f"{self.prop}.json"), "w") as f:
            json.dump(ev, f, indent=1, default=str)
        ok = not new
        print(f"{self.prop} {self.tier}: {'HELD' if ok else 'VIOLATED'} "
              f"({len(self.violations)} raw, {len(kn)} known classes, {len(seen)} new classes) "
              f"wall={ev['wall_s']}s")
        return 0 if ok else 1
