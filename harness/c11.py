"""C11 - each molecular-weight distribution is one coherent probability law."""
import math
import random
import re
import signal

import numpy as np

from . import common, refcdf as R, lawcheck as LC
from .common import Verdict, MachineryError
from .lawcheck import sc, S
from .rng import ScriptedRNG


class Timeout(Exception):
    pass


def _alarm(s, f):
    raise Timeout()


SZ_KEY = "C11:schulz_zimm-mass-function-is-the-density-sampled-at-integers"


def grids(tier):
    g = {
        "gauss": [(100, 20), (5000, 50), (10, 3), (150, 200)],
        "uniform": [(12, 72), (500, 600), (0, 10), (12.7, 72.9)],
        "schulz_zimm": [(12, 8), (1500, 1000), (1500, 1400), (5000, 4500), (30, 20), (400, 200)],      # lightest first: nothing of a later law may be sized by an earlier one;      # (400, 200): z = Mn / (Mw - Mn) is exactly 1
        "log_normal": [(50, 1.1), (800, 1.5), (800, 1.1), (20, 2.0)],
        "poisson": [(65,), (3,), (400,)],
        "flory_schulz": [(0.1,), (0.5,), (0.02,)],
    }
    if tier == "thorough":
        g["gauss"] += [(1e5, 1e3), (1, 0.1)]
        g["schulz_zimm"] += [(200, 150), (60000, 30000)]
        g["log_normal"] += [(5000, 1.05), (3, 1.3)]
        g["poisson"] += [(0.5,), (3000,)]
        g["flory_schulz"] += [(0.0011,), (0.9,), (0.005,)]
    return g


def text(fam, par):
    return f"{fam}({', '.join(str(p) for p in par)})"


def region(fam, par, ref):
    """coarse parameter region (for stable keys)"""
    m = ref.mean()
    return "small-mean" if m < 50 else "large-mean" if m > 2000 else "medium-mean"


def run(tier):
    g = common.import_repo()
    from gbigsmiles.distribution import get_distribution
    from gbigsmiles.mol_prob import RememberAdd
    v = Verdict("C11", tier)
    rnd = random.Random(common.seed() + 11)
    signal.signal(signal.SIGALRM, _alarm)
    records, meta = [], []
    Q = 25 if tier == "quick" else 199
    n_dists = 0
    samples = []

    def add(rec, fam, par, what):
        records.append(rec)
        meta.append((fam, par, what))

    # every distribution object is created first and evaluated afterwards: several objects of one family are alive together,
    # as in a molecule with several blocks (a law must not depend on which other distributions exist)
    made = {}
    # ... and laws of DIFFERENT families whose parameters coincide as location / scale (gauss(m, s) next to uniform(m, m + s)), created in both orders
    order = list(grids(tier).items()) + [("gauss", [(12, 60), (500, 100)]), ("uniform", [(100, 120), (5000, 5050)])]
    for fam, plist in order:
        for par in plist:
            try:
                made[(fam, par)] = get_distribution(text(fam, par))
            except Exception as exc:
                v.violation(f"C11:valid-distribution-rejected:{fam}", f"get_distribution({text(fam, par)!r}) raises {type(exc).__name__}: {exc}", {"text": text(fam, par)})
    for fam, plist in order:
        for par in plist:
            if (fam, par) not in made:
                continue
            n_dists += 1
            ref = R.law(fam, par)
            t = text(fam, par)
            d = made[(fam, par)]
            reg = region(fam, par, ref)
            discrete_impl = fam in ("poisson", "flory_schulz", "schulz_zimm")       # how the implementation treats the family
            # support grid
            if fam == "gauss":
                lo, hi = ref.mu - 8 * ref.sigma, ref.mu + 8 * ref.sigma
            elif fam == "uniform":
                lo, hi = ref.low - 5, ref.high + 5
            else:
                lo, hi = 0.0, max(ref.quantile(1 - 1e-9), 10.0)
            # ---- mass function: non-negative, equals the declared law, sums / integrates to one, mean ----
            if discrete_impl:
                kmax = int(min(hi, 2_000_000)) + 2
                ks = np.arange(0, kmax)
                try:
                    pm = np.array([float(d.prob_mw(int(k))) for k in ks])
                except Exception as exc:
                    v.violation(f"C11:prob_mw-raises:{fam}", f"{t}: prob_mw raises {type(exc).__name__}: {exc}", {"text": t})
                    continue
                own_cdf = np.cumsum(pm)
                total = float(pm.sum())
                mean_own = float((ks * pm).sum()) / total if total > 0 else float("nan")
                for k in sorted(set(rnd.sample(range(0, kmax), min(kmax, 12)) + [0, 1, int(ref.mean())])):
                    p = float(d.prob_mw(k))
                    refp = ref.pmf(k) if ref.discrete else ref.pdf(k)
                    add({"kind": "mass", "p": sc(p), "ref": sc(refp), "tol": 20}, fam, par, f"prob_mw({k}) = {p}, declared law {refp}")
            else:
                n = 4001
                xs = np.linspace(lo, hi, n)
                try:
                    dens = np.nan_to_num(np.array([float(d.prob_mw(float(x))) for x in xs]))
                except Exception as exc:
                    v.violation(f"C11:prob_mw-raises:{fam}", f"{t}: prob_mw raises {type(exc).__name__}: {exc}", {"text": t})
                    continue
                total = float(np.trapezoid(dens, xs))
                mean_own = float(np.trapezoid(dens * xs, xs)) / total if total > 0 else float("nan")
                own_cdf = None
                for x in [float(z) for z in rnd.sample(list(xs), 10)] + [ref.mean()]:
                    p = float(d.prob_mw(x))
                    add({"kind": "mass", "p": sc(p), "ref": sc(ref.pdf(x)), "tol": 20}, fam, par, f"prob_mw({x}) = {p}, declared law {ref.pdf(x)}")
            # numerical integration error of the trapezoid rule: jumps of the density (uniform) cost up to density * step
            ttol = 1e-6 if discrete_impl else max(2e-4, 2.5 * float(dens.max()) * float(xs[1] - xs[0]))
            add({"kind": "total", "total": sc(total), "tol": sc(ttol)}, fam, par, f"total probability {total}")
            add({"kind": "mean", "mean": sc(mean_own / max(1.0, abs(ref.mean()))), "ref": sc(ref.mean() / max(1.0, abs(ref.mean()))),
                 "tol": sc(2e-3)}, fam, par, f"mean of the law {mean_own}, documented {ref.mean()}")
            # ---- intervals: P((a, b]) = F(b) - F(a) where F is the law's own cumulative function ----
            for j in range(10 if tier == "quick" else 44):
                a = rnd.uniform(max(lo, 0 if discrete_impl else lo), hi * 0.7 if hi > 0 else hi)
                b = a + rnd.uniform(0.01, 0.5) * (hi - lo)
                if j < 2 and lo <= 0 <= hi:
                    a = 0.0          # the first interval of a block starts at the lower end 0 (a fresh RememberAdd)
                    b = [ref.mean(), max(1.0, 0.3 * ref.mean())][j]
                if discrete_impl:
                    a, b = float(int(a)), float(int(b) + 1)
                ra = RememberAdd(a)
                ra += (b - a)
                try:
                    p = float(d.prob_mw(ra))
                except Exception as exc:
                    v.violation(f"C11:interval-raises:{fam}", f"{t}: prob_mw(interval {a}..{b}) raises {type(exc).__name__}: {exc}", {"text": t})
                    continue
                if discrete_impl:
                    Fa = float(own_cdf[min(int(a), len(own_cdf) - 1)]) if a >= 0 else 0.0
                    Fb = float(own_cdf[min(int(b), len(own_cdf) - 1)])
                else:
                    Fa, Fb = ref.cdf(a), ref.cdf(b)
                add({"kind": "interval", "p": sc(p), "Fa": sc(Fa), "Fb": sc(Fb), "tol": sc(2e-6), "slack": sc(abs(total - 1.0))}, fam, par,
                    f"P(({a}, {b}]) = {p}, cumulative difference {Fb - Fa}")
            # ---- draws at scripted quantiles ----
            us = [(i + 0.5) / Q for i in range(Q)] + ([0.001, 0.999] if tier == "thorough" else [])
            for u in us:
                rng = ScriptedRNG([], qgrid=None)
                if fam == "gauss":
                    rng.qgrid = {"standard_normal": [R.phi_inv(u)]}
                elif fam == "poisson":
                    rng.qgrid = {"poisson": [ref.quantile(u)]}
                else:
                    rng.qgrid = {"uniform": [u]}
                try:
                    signal.alarm(90)
                    x = float(d.draw_mw(rng))
                    signal.alarm(0)
                except Timeout:
                    if fam == "schulz_zimm" and u > total - 1e-6:
                        # the quantile lies beyond the total mass of the (unnormalised) mass function
                        v.violation(SZ_KEY, f"{t}: draw_mw at quantile {u} does not return: the mass function only sums to {total}", {"text": t, "u": u})
                    else:
                        v.violation(f"C11:draw-does-not-return:{fam}:{reg}", f"{t}: draw_mw at quantile {u} did not return within 90 s", {"text": t, "u": u})
                    continue
                except Exception as exc:
                    signal.alarm(0)
                    if isinstance(exc, RuntimeError) and "updating stopped" in str(exc) and fam in ("flory_schulz", "schulz_zimm"):
                        v.violation(f"C11:draw-raises:scipy-discrete-quantile-search:{fam}", f"{t}: draw_mw at quantile {u} raises RuntimeError: {exc}", {"text": t, "u": u})
                        continue
                    v.violation(f"C11:draw-raises:{fam}:{reg}:{type(exc).__name__}", f"{t}: draw_mw at quantile {u} raises {type(exc).__name__}: {str(exc)[:80]}",
                                {"text": t, "u": u})
                    continue
                fin = int(math.isfinite(x))
                if fam == "poisson":
                    qs = [e for e in rng.events if e["kind"] == "q"]
                    if not qs or abs(qs[0]["args"][0] - ref.N) > 1e-9:
                        v.violation("C11:poisson-drawn-with-other-mean", f"{t}: the generator was asked for a Poisson variate with lam={qs[0]['args'] if qs else None}", {"text": t})
                if discrete_impl and fin:
                    k = int(x)
                    Flo = float(own_cdf[k - 1]) if 1 <= k <= len(own_cdf) else 0.0
                    Fhi = float(own_cdf[min(k, len(own_cdf) - 1)]) if k >= 0 else 0.0
                    insup = int(k >= ref.support_low and abs(x - k) < 1e-9)
                    if fam == "poisson":
                        Flo, Fhi = 0.0, 1.0      # numpy's own Poisson sampler: only the mean it is called with is checked
                else:
                    Flo = Fhi = ref.cdf(x) if fin else 0.0
                    insup = int((not fin) or x >= ref.support_low - 1e-9) if fam != "uniform" else int(ref.low - 1e-9 <= x <= ref.high + 1e-9)
                add({"kind": "draw", "u": sc(u), "Flo": sc(Flo), "Fhi": sc(Fhi), "finite": fin, "insupport": insup, "tol": sc(2e-6)}, fam, par,
                    f"draw at quantile {u} returned {x}; F(x-)={Flo} F(x)={Fhi}")
            # ---- text form and unknown names ----
            m = re.match(r"\|([a-z_]+)\((.*)\)\|$", str(d))
            ok = bool(m) and m.group(1) == fam
            if ok:
                try:
                    nums = [float(z) for z in m.group(2).split(",")]
                    ok = len(nums) == len(par) and all(abs(a - float(b)) <= 1e-12 * max(1, abs(float(b))) for a, b in zip(nums, par))
                except ValueError:
                    ok = False
            if not ok and fam == "uniform" and any(float(x) != int(float(x)) for x in par):
                v.violation("C11:uniform-parameters-truncated-to-integers", f"str(get_distribution({t!r})) = {str(d)!r}", {"text": t})
            elif not ok:
                v.violation(f"C11:text-form:{fam}", f"str(get_distribution({t!r})) = {str(d)!r} does not reproduce the parameters", {"text": t})
            if len(samples) < 6:
                samples.append({"distribution": t, "total": total, "mean": mean_own, "documented_mean": ref.mean()})
    for bad in ("gaus(10, 2)", "normal(5, 1)", "Gauss(5,1)", "schulz(5,1)", "lognormal(5, 1.2)", "flory(0.1)", "exp(3)", "",
                # unknown names that merely BEGIN with a known one
                "gaussian(100, 20)", "gauss_trunc(100, 20)", "uniform_int(1, 5)", "poissonian(65)", "poisson_binomial(65)", "log_normal10(50, 1.1)",
                "schulz_zimm_flory(500, 400)", "flory_schulz_mod(0.1)"):
        try:
            get_distribution(bad)
            v.violation("C11:unknown-name-accepted", f"get_distribution({bad!r}) is accepted", {"text": bad})
        except Exception:
            pass
    failed, states = LC.validate(records, tag="c11")
    for idx, clauses in failed:
        fam, par, what = meta[idx]
        ref = R.law(fam, par)
        for c in clauses:
            if fam == "schulz_zimm" and c in ("does-not-sum-to-one", "mean-not-as-documented", "interval-off-by-the-normalisation-error"):
                key = SZ_KEY
            elif fam == "uniform" and any(float(x) != int(float(x)) for x in par):
                key = "C11:uniform-parameters-truncated-to-integers"
            else:
                key = f"C11:{c}:{fam}:{region(fam, par, ref)}"
            v.violation(key, f"{text(fam, par)}: {what}: {c}", {"distribution": text(fam, par), "record": records[idx]})
    v.coverage = {"states": states, "transitions": states, "traces_validated_against_impl": len(records), "distributions": n_dists,
                  "records": len(records), "quantiles_per_distribution": Q, "samples": samples}
    v.assumptions = ["the numeric ground truth (densities, CDFs, quantiles) is harness/refcdf.py (math only); TLC checks the relations between recorded numbers, not the analysis",
                     "families the implementation treats as discrete (poisson, flory_schulz, schulz_zimm) are checked for INTERNAL coherence (interval = sum of its own point masses; draw at u "
                     "returns x with F(x-) <= u <= F(x) for its own cumulative sums) and against the declared law for the point masses",
                     "numbers are scaled by 1e8 (TLC integers are 32 bit)"]
    return v.finish()


