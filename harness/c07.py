from . import genprops


def run(tier):
    return genprops.run("C07", tier)
