"""Independent reference laws of the six molecular-weight distributions, standard library only (math).
Parameter roles as documented: gauss(mean, sigma), uniform(low, high), schulz_zimm(Mw, Mn), log_normal(Mn, dispersity),
poisson(mean), flory_schulz(a).  This is the numeric oracle behind every table handed to TLC; nothing here uses scipy."""
import math


def phi(z):
    return 0.5 * (1.0 + math.erf(z / math.sqrt(2.0)))


def phi_inv(u):
    if u <= 0.0:
        return -math.inf
    if u >= 1.0:
        return math.inf
    lo, hi = -40.0, 40.0
    for _ in range(200):
        mid = 0.5 * (lo + hi)
        if phi(mid) < u:
            lo = mid
        else:
            hi = mid
    return 0.5 * (lo + hi)


def gammainc_lower_reg(a, x):
    """regularised lower incomplete gamma P(a, x): series for x < a + 1, continued fraction otherwise"""
    if x <= 0:
        return 0.0
    gln = math.lgamma(a)
    if x < a + 1.0:
        ap, s, d = a, 1.0 / a, 1.0 / a
        for _ in range(100000):
            ap += 1.0
            d *= x / ap
            s += d
            if abs(d) < abs(s) * 1e-16:
                break
        return min(1.0, s * math.exp(-x + a * math.log(x) - gln))
    b = x + 1.0 - a
    c = 1.0 / 1e-300
    d = 1.0 / b
    h = d
    for i in range(1, 100000):
        an = -i * (i - a)
        b += 2.0
        d = an * d + b
        if abs(d) < 1e-300:
            d = 1e-300
        c = b + an / c
        if abs(c) < 1e-300:
            c = 1e-300
        d = 1.0 / d
        delta = d * c
        h *= delta
        if abs(delta - 1.0) < 1e-16:
            break
    return max(0.0, 1.0 - math.exp(-x + a * math.log(x) - gln) * h)


class Law:
    discrete = False
    support_low = -math.inf

    def cdf(self, x):
        raise NotImplementedError

    def quantile(self, u):
        raise NotImplementedError

    def mean(self):
        raise NotImplementedError


class Gauss(Law):
    def __init__(self, mu, sigma):
        self.mu, self.sigma = float(mu), float(sigma)

    def cdf(self, x):
        if self.sigma == 0:
            return 1.0 if x >= self.mu else 0.0
        return phi((x - self.mu) / self.sigma)

    def pdf(self, x):
        return math.exp(-0.5 * ((x - self.mu) / self.sigma) ** 2) / (self.sigma * math.sqrt(2 * math.pi))

    def quantile(self, u):
        return self.mu + self.sigma * phi_inv(u)

    def mean(self):
        return self.mu


class Uniform(Law):
    def __init__(self, low, high):
        self.low, self.high = float(low), float(high)
        self.support_low = self.low

    def cdf(self, x):
        return min(1.0, max(0.0, (x - self.low) / (self.high - self.low)))

    def pdf(self, x):
        return 1.0 / (self.high - self.low) if self.low <= x <= self.high else 0.0

    def quantile(self, u):
        return self.low + (self.high - self.low) * u

    def mean(self):
        return 0.5 * (self.low + self.high)


class SchulzZimm(Law):
    """P(M) = z^(z+1)/Gamma(z+1) M^(z-1)/Mn^z exp(-z M/Mn), z = Mn/(Mw-Mn): a gamma law with shape z and mean Mn"""
    support_low = 0.0

    def __init__(self, Mw, Mn):
        self.Mw, self.Mn = float(Mw), float(Mn)
        self.z = self.Mn / (self.Mw - self.Mn)

    def pdf(self, x):
        if x < 0:
            return 0.0
        z, Mn = self.z, self.Mn
        if x == 0:
            return 0.0 if z > 1 else (z / Mn if z == 1 else math.inf)
        return math.exp((z + 1) * math.log(z) - math.lgamma(z + 1) + (z - 1) * math.log(x) - z * math.log(Mn) - z * x / Mn)

    def cdf(self, x):
        return gammainc_lower_reg(self.z, self.z * x / self.Mn) if x > 0 else 0.0

    def quantile(self, u):
        lo, hi = 0.0, self.Mn
        while self.cdf(hi) < u:
            hi *= 2
            if hi > 1e12:
                return math.inf
        for _ in range(200):
            mid = 0.5 * (lo + hi)
            if self.cdf(mid) < u:
                lo = mid
            else:
                hi = mid
        return 0.5 * (lo + hi)

    def mean(self):
        return self.Mn


class LogNormal(Law):
    """ln m ~ N(ln Mn - ln(D)/2, ln D): mean Mn"""
    support_low = 0.0

    def __init__(self, Mn, D):
        self.Mn, self.D = float(Mn), float(D)
        self.s2 = math.log(self.D)
        self.m = math.log(self.Mn) - self.s2 / 2

    def cdf(self, x):
        return phi((math.log(x) - self.m) / math.sqrt(self.s2)) if x > 0 else 0.0

    def pdf(self, x):
        if x <= 0:
            return 0.0
        return math.exp(-((math.log(x / self.Mn) + self.s2 / 2) ** 2) / (2 * self.s2)) / (x * math.sqrt(2 * math.pi * self.s2))

    def quantile(self, u):
        return math.exp(self.m + math.sqrt(self.s2) * phi_inv(u))

    def mean(self):
        return self.Mn


class Poisson(Law):
    discrete = True
    support_low = 0.0

    def __init__(self, N):
        self.N = float(N)

    def pmf(self, k):
        k = int(k)
        return math.exp(-self.N + k * math.log(self.N) - math.lgamma(k + 1)) if k >= 0 else 0.0

    def cdf(self, x):
        if x < 0:
            return 0.0
        k = int(math.floor(x))
        return min(1.0, sum(self.pmf(j) for j in range(0, k + 1)))

    def quantile(self, u):
        acc, k = 0.0, 0
        while True:
            acc += self.pmf(k)
            if acc >= u - 1e-15 or k > 10 ** 7:
                return k
            k += 1

    def mean(self):
        return self.N


class FlorySchulz(Law):
    """W_a(k) = a^2 k (1-a)^(k-1), k = 1, 2, ...; CDF(k) = 1 - (1-a)^k (1 + a k); mean 2/a - 1"""
    discrete = True
    support_low = 1.0

    def __init__(self, a):
        self.a = float(a)

    def pmf(self, k):
        k = int(k)
        return self.a ** 2 * k * (1 - self.a) ** (k - 1) if k >= 1 else 0.0

    def cdf(self, x):
        if x < 1:
            return 0.0
        k = int(math.floor(x))
        return 1.0 - (1 - self.a) ** k * (1 + self.a * k)

    def quantile(self, u):
        lo, hi = 0, 1
        while self.cdf(hi) < u - 1e-15:
            hi *= 2
            if hi > 10 ** 9:
                return hi
        while hi - lo > 1:
            mid = (lo + hi) // 2
            if self.cdf(mid) < u - 1e-15:
                lo = mid
            else:
                hi = mid
        return hi

    def mean(self):
        return 2.0 / self.a - 1.0


FAMILIES = {"gauss": Gauss, "uniform": Uniform, "schulz_zimm": SchulzZimm, "log_normal": LogNormal, "poisson": Poisson, "flory_schulz": FlorySchulz}


def law(fam, par):
    return FAMILIES[fam](*par)
