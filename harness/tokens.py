"""Token level of C02 / C15 / C01: TLC enumerates every token text up to a length (spec/TokenScan.tla) with its
meaning; this module concretises the symbol sequences into strings, cross-checks the specification's meaning with RDKit
("the descriptor written as a dummy atom") and compares the real SmilesToken field by field."""
import os
import random

from . import common
from .common import Scratch, run_tlc, MachineryError, tla
from .gast import Token, Desc, frac

BY_VAL = {0: ["C", "N", "O", "S", "[Si]", "Cl"], 1: ["C", "N", "O", "F", "Cl", "Br", "S", "[Si]", "[O-]", "[13CH3]"],
          2: ["C", "N", "O", "S", "[Si]", "[CH2]", "[NH+]"], 3: ["C", "N", "B", "[Si]", "[13C]", "[N+]"], 4: ["C", "[Si]", "[N+]", "[C]"]}
# [NH+] with two bonds and [N+] with 3: fine for parsing; chemistry is only parsed, never embedded, at this level

IDS = [-1, -1, 0, 1, 7, 12, 123]
WEIGHTS = [(None, ""), (None, ""), ("2", "|2|"), ("0.5", "|0.5|"), ("2", "|2.|"), ("0.5", "|.5|"), ("2", "|2e0|"), ("3", "| 3 |"),
           ("0", "|0|"), ("10.25", "|10.25|"), ("0.00001", "|1e-5|"), ("25000000000000000", "|2.5e16|")]      # (the last two PRINT in exponent notation)
LISTS = [(["1", "2", "3"], "|1 2 3|"), (["1", "0", "0.5"], "|1. 0 .5|"), (["0", "0"], "|0 0|"), (["2", "2", "2", "2"], "| 2 2  2 2 |")]


def enumerate_tokens(L, breaking=False, timeout=1800):
    with Scratch("tokscan") as d:
        with open(os.path.join(d, "MC.tla"), "w") as f:
            f.write("---- MODULE MC ----\nEXTENDS TokenScan\n====\n")
        cfg = os.path.join(d, "MC.cfg")
        with open(cfg, "w") as f:
            f.write(f"SPECIFICATION Spec\nCONSTANTS\n L = {L}\n Breaking = {tla(bool(breaking))}\n"
                    "INVARIANT ValenceOK\nINVARIANT DescsBound\nINVARIANT BondsSane\nINVARIANT Connected1\nINVARIANT Export\n")
        r = run_tlc(d, "MC", cfg=cfg, workers=1, timeout=timeout, xmx="6g")
    if not r.ok:
        print(r.tail(30))
        raise MachineryError("TLC failed on TokenScan" + (f" (model theorem {r.invariant_violated()})" if r.invariant_violated() else ""))
    toks = [x for x in r.printed if "text" in x]
    return toks, r


def concretise(tok, rnd: random.Random, plain=False):
    """symbol sequence -> (text, Token AST with Desc objects, list of atom texts)."""
    items = []
    cur = ""
    atoms = []
    ai = 0
    ring_open = []
    nd = 0
    # other writings of the same meaning (not in plain concretisations): ring-bond labels %10 / %11 instead of digits, a single bond
    # between two chain atoms written out as '-', a carbon with three bonds written as a chiral bracket atom
    pct = (not plain) and rnd.random() < 0.3
    prev_sym = ""
    for pos, s in enumerate(tok["text"]):
        if s == "A":
            v = tok["val"][ai] if ai < len(tok["val"]) else 1
            # ring atoms stay carbon: small hetero rings (O1NN1) are perceived as aromatic by RDKit in one writing and not in another
            el = "C" if (plain or "R" in tok["text"]) else rnd.choice(BY_VAL[min(v, 4)])
            if not plain and el == "C" and v == 3 and "R" not in tok["text"] and rnd.random() < 0.25:
                el = rnd.choice(["[C@H]", "[C@@H]"])
            if not plain and prev_sym == "A" and rnd.random() < 0.15:
                cur += "-"
            atoms.append(el)
            cur += el
            ai += 1
        elif s in "()=#":
            cur += s
        elif s == "R":
            dgt = "1" if "1" not in ring_open and "%10" not in ring_open else "2"
            if pct:
                dgt = "%10" if dgt == "1" else "%11"
            ring_open.append(dgt)
            cur += dgt
        elif s == "r":
            cur += ring_open.pop()
        elif s == "D":
            if cur:
                items.append(cur)
                cur = ""
            sym = rnd.choice("$<>")
            i = -1 if plain else rnd.choice(IDS)
            d = Desc(sym, i)
            d._wtext = ""
            if not plain:
                k = rnd.random()
                if k < 0.55:
                    w, t = rnd.choice(WEIGHTS)
                    d.w = frac(w) if w is not None else None
                    d._wtext = t
                elif k < 0.75:
                    l, t = rnd.choice(LISTS)
                    d.tr = [frac(x) for x in l]
                    d._wtext = t
            items.append(d)
            nd += 1
        prev_sym = s
    if cur:
        items.append(cur)
    t = Token(items)
    text = "".join(x if isinstance(x, str) else "[" + x.sym + ("" if x.id < 0 else str(x.id)) + x._wtext + "]" for x in items)
    return text, t, atoms


def shape_class(tok):
    """structural class of a token text (for stable violation keys): what precedes each descriptor."""
    t = tok["text"]
    cls = set()
    for i, s in enumerate(t):
        if s != "D":
            continue
        if i == 0:
            cls.add("leading" + ("+bond" if len(t) > 1 and t[1] in "=#" else ""))
            continue
        p = t[i - 1]
        if p in "=#":
            q = t[i - 2] if i >= 2 else ""
            cls.add("bond-after-" + ("atom" if q == "A" else "branch-open" if q == "(" else "branch-close" if q == ")" else "ring" if q in "Rr" else q))
        elif p == "A":
            cls.add("after-atom")
        elif p == "(":
            # is this branch preceded by another branch?
            cls.add("in-branch" + ("-after-branch" if i >= 2 and t[i - 2] == ")" else ""))
        elif p == ")":
            # what did the closed branch contain last?
            cls.add("after-branch-close" + ("-of-descriptor" if i >= 2 and t[i - 2] == "D" else ""))
        elif p == "r":
            cls.add("after-ring-close")
    return cls
