"""C12 - mixture bookkeeping. TLC enumerates every configuration of the bounded space (spec/Mixture.tla), solves each with
the reference solver in exact rationals and checks the model theorems; every configuration is replayed into the real
System and outcome class + every mass / percentage are compared; then str -> re-parse -> masses again."""
import os
from fractions import Fraction

from . import common
from .common import Verdict, Scratch, run_tlc, MachineryError, tla

SMI = ["CCO", "CCC", "CCCC", "CCCCC", "CCCCCC"]


def cfg_text(c):
    s = ""
    for i, comp in enumerate(c["comps"]):
        s += SMI[i]
        if comp["kind"] == "abs":
            s += f".|{comp['val']}|"
        elif comp["kind"] == "pct":
            s += f".|{comp['val']}%|"
    return s


def fr(q):
    return Fraction(q[0], q[1])


def observe(g, text, ext):
    """-> (class, S, pcts, abss)"""
    try:
        s = g.System(text, ext if ext else None)
    except Exception as exc:
        return "rejected", None, None, None, f"{type(exc).__name__}: {str(exc)[:80]}", None
    try:
        gen = s.generable
    except Exception as exc:
        return "rejected", None, None, None, f"generable raised {type(exc).__name__}", None
    if not gen:
        return "not-generable", None, None, None, "", s
    try:
        S = s.system_mass
        mols = s._molecules
        pct = [m.mixture.relative_mass for m in mols]
        ab = [m.mixture.absolute_mass for m in mols]
    except Exception as exc:
        return "rejected", None, None, None, f"accessor raised {type(exc).__name__}: {exc}", None
    return "solved", S, pct, ab, "", s


def close(x, q, tol=1e-9):
    if x is None:
        return False
    f = float(q)
    return abs(float(x) - f) <= tol * max(1.0, abs(f))


def signature(c):
    kinds = [x["kind"] for x in c["comps"]]
    a, p, n = kinds.count("abs"), kinds.count("pct"), kinds.count("none")
    last = kinds[-1]
    return f"A{min(a, 2)}{'+' if a > 2 else ''}P{min(p, 2)}{'+' if p > 2 else ''}N{n}E{1 if c['ext'] else 0}"


def run(tier):
    g = common.import_repo()
    v = Verdict("C12", tier)
    if tier == "quick":
        consts = dict(MaxN=3, AbsVals={100, 300, 600}, PctVals={10, 30, 60, 100}, ExtVals={1000, 500})
    else:
        consts = dict(MaxN=4, AbsVals={100, 300, 600, 250}, PctVals={10, 30, 60, 100, 25}, ExtVals={1000, 500})
    with Scratch("c12") as d:
        with open(os.path.join(d, "MC.tla"), "w") as f:
            f.write("---- MODULE MC ----\nEXTENDS Mixture\n====\n")
        cfg = os.path.join(d, "MC.cfg")
        with open(cfg, "w") as f:
            f.write("SPECIFICATION Spec\nCONSTANTS\n" + "".join(f" {k} = {tla(x)}\n" for k, x in consts.items()))
            for inv in ("SumTo100", "MassesSumToS", "UserValuesKept", "AllPositive", "Export"):
                f.write(f"INVARIANT {inv}\n")
        r = run_tlc(d, "MC", cfg=cfg, workers=1, timeout=3000, xmx="4g")
    if not r.ok:
        inv = r.invariant_violated()
        if inv:
            v.violation(f"C12:model-theorem-{inv}", "the reference solver violates " + inv + "\n" + r.tail())
            return v.finish()
        print(r.tail(40))
        raise MachineryError("TLC failed on Mixture")
    configs = [c for c in r.printed if "outcome" in c]
    if len(configs) != r.distinct:
        raise MachineryError(f"exported {len(configs)} configurations, TLC reports {r.distinct} states")
    counts = {}
    samples = []
    replayed = 0
    for c in configs:
        exp = c["outcome"]
        counts[exp] = counts.get(exp, 0) + 1
        text = cfg_text(c)
        got, S, pct, ab, msg, obj = observe(g, text, c["ext"])
        if exp == "degenerate":
            # a component forced to 0 %: the statement speaks about positive values, so no outcome class is demanded - but whatever is
            # reported as solved has to be consistent bookkeeping
            if got == "solved":
                bad = [i for i in range(len(pct)) if pct[i] is None or ab[i] is None]
                if not bad and (abs(sum(pct) - 100) > 1e-6 or any(abs(ab[i] - pct[i] * S / 100) > 1e-9 * max(1, S) for i in range(len(pct)))):
                    bad = ["inconsistent"]
                if bad:
                    v.violation(f"C12:solved-but-incomplete-bookkeeping:{signature(c)}", f"{text} (system mass {c['ext'] or 'not given'}) is reported generable but "
                                f"percentages {pct} / absolute masses {ab} / system mass {S} are incomplete or inconsistent", {"system": text, "system_molweight": c["ext"] or None})
            replayed += 1
            continue
        replayed += 1
        sig = signature(c)
        rep = {"system": text, "system_molweight": c["ext"] or None, "expected": exp, "why": c.get("why", ""), "got": got, "msg": msg}
        if len(samples) < 5 and exp == "S" and len(c["comps"]) > 1:
            samples.append({"system": text, "system_molweight": c["ext"] or None, "reference": {"S": str(fr(c["S"])),
                            "pct": [str(fr(q)) for q in c["pct"]]}, "implementation": {"S": S, "pct": pct}})
        if exp == "S":
            if got == "rejected":
                v.violation(f"C12:determined-but-rejected:{sig}", f"{text} (system mass {c['ext'] or 'not given'}) is determined "
                            f"(S={fr(c['S'])}) but the implementation raises: {msg}", rep)
            elif got == "not-generable":
                kinds = [x["kind"] for x in c["comps"]]
                no_pct = kinds.count("abs") + kinds.count("none")
                # the implementation only infers a percentage when exactly one component lacks a written one (or all are absolute)
                cls = "two-or-more-components-without-written-percentage" if (no_pct >= 2 and not (kinds.count("pct") == 0 and kinds.count("none") == 0)) else sig
                v.violation(f"C12:determined-but-not-generable:{cls}", f"{text} (system mass {c['ext'] or 'not given'}) is determined "
                            f"(S={fr(c['S'])}, pct={[str(fr(q)) for q in c['pct']]}) but is reported not generable", rep)
            else:
                bad = []
                if not close(S, fr(c["S"])):
                    bad.append(f"system mass {S} != {fr(c['S'])}")
                for i, (q, a) in enumerate(zip(c["pct"], c["abs"])):
                    if not close(pct[i], fr(q)):
                        bad.append(f"component {i + 1} percentage {pct[i]} != {fr(q)}")
                    if not close(ab[i], fr(a)):
                        bad.append(f"component {i + 1} absolute mass {ab[i]} != {fr(a)}")
                if pct and all(x is not None for x in pct) and abs(sum(pct) - 100) > 1e-6:
                    bad.append(f"percentages sum to {sum(pct)}")
                if bad:
                    v.violation(f"C12:wrong-values:{sig}", f"{text} (system mass {c['ext'] or 'not given'}): " + "; ".join(bad), rep)
                else:
                    # print -> re-parse keeps all masses
                    try:
                        t2 = str(obj)
                        got2, S2, pct2, ab2, msg2, _ = observe(g, t2, None)
                        if got2 != "solved" or not close(S2, fr(c["S"])) or any(not close(x, fr(q)) for x, q in zip(ab2, c["abs"])):
                            v.violation(f"C12:reparse-loses-masses:{sig}", f"{text} prints as {t2}, which re-parses to {got2} S={S2} abs={ab2}", rep)
                    except Exception as exc:
                        v.violation(f"C12:reparse-loses-masses:{sig}", f"{text}: printing / re-parsing raises {exc}", rep)
        elif exp == "under":
            if got == "solved":
                v.violation(f"C12:underdetermined-but-solved:{sig}", f"{text} (system mass {c['ext'] or 'not given'}) is under-determined "
                            f"({c['why']}) but the implementation reports generable with S={S} pct={pct}", rep)
            # 'rejected' for an under-determined system is a refusal too: not a violation
        elif exp == "contra":
            # "not generable" is a refusal as well: the violation is a contradictory specification that is ACCEPTED
            if got == "solved":
                v.violation(f"C12:contradictory-accepted:{sig}:{got}", f"{text} (system mass {c['ext'] or 'not given'}) is contradictory "
                            f"({c['why']}) but the implementation answers {got}" + (f" with S={S} pct={pct} abs={ab}" if got == "solved" else ""), rep)
    # the linked setters of one Mixture object: every sequence of setter calls after construction (spec/MixtureObject.tla)
    from . import mixobj
    if tier == "quick":
        mh, mr = mixobj.enumerate_histories([0, 25, 100, 150], [-5, 0, 40, 200], 3)
    else:
        mh, mr = mixobj.enumerate_histories([0, 10, 25, 100, 150], [-5, 0, 40, 200, 1000], 4)
    mviol, mdiv, mops = mixobj.replay(g, mh)
    for key, msg in mviol:
        v.violation(key, msg, {"history": msg})
    if mdiv:
        v.notes.append("the Mixture object does not follow spec/MixtureObject.tla on some history (not a clause of C12 by itself): " + " | ".join(mdiv[:4]))
    v.coverage = {
        "mixture_object": {"histories": len(mh), "setter_calls_compared": mops, "states": mr.distinct, "divergences_not_c12": len(mdiv),
                           "invariants": ["Linked", "Ranges", "WrittenPercentInRange", "AbsKeptBySetRel"]},
        "states": r.distinct + mr.distinct, "transitions": r.generated + mr.generated, "traces_validated_against_impl": replayed + len(mh), "exhaustive": True,
        "configurations_by_reference_outcome": counts, "constants": {k: sorted(x) if isinstance(x, set) else x for k, x in consts.items()},
        "model_theorems": ["SumTo100", "MassesSumToS", "UserValuesKept", "AllPositive"],
        "samples": samples or [cfg_text(configs[0])],
    }
    v.assumptions = ["only the last component can be written without a mixture specifier (the notation cannot delimit it elsewhere)",
                     "configurations where the unspecified component would get exactly 0 % are enumerated but not compared (statement: positive values)",
                     "an exception for an under-determined system counts as a refusal, not as a violation",
                     "a contradictory specification reported as not generable counts as rejected (it is refused, not reinterpreted)",
                     "per-component masses are read from System._molecules[i].mixture (no public accessor exists)"]
    return v.finish()
