from . import genprops


def run(tier):
    return genprops.run("C05", tier)
