from . import genprops


def run(tier):
    return genprops.run("C08", tier)
