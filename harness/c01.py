"""C01 - canonical notation round-trips: fixed point, same object, extensions erasable."""
import os
import random
import re

import numpy as np

from . import common, tokens as TK, instances as I, shapes as SH
from .common import Verdict, MachineryError
from .c02 import desc_fields, canon

EXT_RE = re.compile(r"\|[^|]*\|")


def erase(c):
    return EXT_RE.sub("", c)


def sig(o):
    n = type(o).__name__
    if n == "BondDescriptor":
        return ("bd", desc_fields(o))
    if n == "SmilesToken":
        return ("tok", [desc_fields(b) for b in o.bond_descriptors], canon(o.generate_smiles_fragment()))
    if n == "Stochastic":
        return ("sto", sig(o.left_terminal), sig(o.right_terminal), [sig(t) for t in o.repeat_tokens], [sig(t) for t in o.end_tokens],
                None if o.distribution is None else dist_sig(o.distribution))
    if n == "Molecule":
        mx = None if o.mixture is None else ("mix", o.mixture.absolute_mass, o.mixture.relative_mass)
        return ("mol", [sig(e) for e in o.elements], mx)
    if n == "System":
        return ("sys", [sig(m) for m in o._molecules], bool(o.generable))
    raise TypeError(n)


def dist_sig(d):
    """what the text says (family, parameters) and what the object does: the value it draws at a fixed quantile"""
    from .rng import ScriptedRNG
    m = re.match(r"\|?\s*([a-z_]+)\s*\((.*)\)\s*\|?$", str(d).strip())
    head = (m.group(1), [float(x) for x in m.group(2).split(",")]) if m else str(d)
    draws = []
    # (the discrete families go through scipy's generic quantile search: ~0.1 s per draw, thousands of objects - the three fast families only)
    for u in ((0.137,) if isinstance(head, tuple) and head[0] in ("uniform", "gauss", "log_normal") else ()):        # (one quantile: tens of thousands of calls)
        try:
            # (a uniform variate for scipy's quantile transform, the matching normal deviate for gauss)
            x = d.draw_mw(ScriptedRNG([], qgrid={"uniform": [u], "standard_normal": [{0.137: -1.094, 0.5: 0.0, 0.863: 1.094}[u]]}))
            draws.append(round(float(x), 6))
        except Exception as exc:
            draws.append(type(exc).__name__)
    return (head, draws)


def strip_ext(s):
    """signature minus extensions: weights, lists, distributions, mixture masses."""
    if isinstance(s, dict):
        return {k: v for k, v in s.items() if k not in ("w", "tr")}
    if isinstance(s, tuple):
        if s and s[0] == "sto":
            return tuple(strip_ext(x) for x in s[:5]) + (None,)
        if s and s[0] == "mix":
            return ("mix",)
        return tuple(strip_ext(x) for x in s)
    if isinstance(s, list):
        return [strip_ext(x) for x in s]
    return s


def same(a, b, tol=1e-9):
    if isinstance(a, float) or isinstance(b, float):
        if a is None or b is None:
            return a is b
        try:
            return abs(float(a) - float(b)) <= tol * max(1.0, abs(float(a)), abs(float(b)))
        except (TypeError, ValueError):
            return False
    if isinstance(a, (list, tuple)) and isinstance(b, (list, tuple)):
        return len(a) == len(b) and all(same(x, y, tol) for x, y in zip(a, b))
    if isinstance(a, dict) and isinstance(b, dict):
        return a.keys() == b.keys() and all(same(a[k], b[k], tol) for k in a)
    return a == b


def gen_outcome(o, seed):
    try:
        if not o.generable:
            return ("not-generable",)
        m = o.generate(rng=np.random.default_rng(seed))
        return ("mol", m.smiles, round(m.weight, 6), bool(m.fully_generated))
    except Exception as exc:
        return ("raises", type(exc).__name__)


def roundtrip(g, level, text, parse, do_generate, single_molecule):
    """returns list of (key, message)"""
    out = []
    try:
        o1 = parse(text)
    except Exception:
        return None          # not an accepted string: outside C01
    try:
        c = str(o1)
        e = o1.generate_string(False)
    except Exception as exc:
        return [(f"{level}:print-raises", f"{level} {text!r}: printing raises {type(exc).__name__}: {exc}")]
    try:
        o2 = parse(c)
    except Exception as exc:
        return [(f"{level}:canonical-not-accepted:{type(exc).__name__}", f"{level} {text!r} prints as {c!r}, which is rejected: {type(exc).__name__}: {str(exc)[:100]}")]
    c2 = str(o2)
    if c2 != c:
        out.append((f"{level}:not-a-fixed-point", f"{level} {text!r} prints as {c!r}, which prints as {c2!r}"))
    s1, s2 = sig(o1), sig(o2)
    if not same(s1, s2):
        out.append((f"{level}:canonical-denotes-other-object", f"{level} {text!r} prints as {c!r}, which denotes a different object: {s1} vs {s2}"))
    if erase(c) != e:
        out.append((f"{level}:erasure-mismatch", f"{level} {text!r}: without extensions {e!r} is not the canonical string {c!r} with every |...| erased ({erase(c)!r})"))
    if "|" in e:
        out.append((f"{level}:pipe-in-extension-free-form", f"{level} {text!r}: extension-free form {e!r} contains '|'"))
    if single_molecule:
        try:
            o3 = parse(e)
            if not same(strip_ext(sig(o3)), strip_ext(s1)):
                out.append((f"{level}:extension-free-denotes-other-structure", f"{level} {text!r}: extension-free form {e!r} denotes other tokens / descriptors"))
        except Exception as exc:
            out.append((f"{level}:extension-free-not-accepted:{type(exc).__name__}", f"{level} {text!r}: extension-free form {e!r} is rejected: {type(exc).__name__}: {str(exc)[:100]}"))
    if do_generate and not out:
        for seed in (3, 11):
            g1, g2 = gen_outcome(o1, seed), gen_outcome(o2, seed)
            if g1 != g2:
                out.append((f"{level}:different-molecule-for-equal-seed", f"{level} {text!r} vs its canonical form {c!r}: seed {seed} gives {g1} vs {g2}"))
                break
    if do_generate and not out and type(o1).__name__ == "Molecule":
        # read-only queries (generation above, the reaction graph here) leave the object - hence its canonical string - as parsed
        try:
            o1.gen_reaction_graph()
        except Exception:
            pass
        try:
            c3 = str(o1)
        except Exception as exc:
            c3 = f"<printing raises {type(exc).__name__}>"
        if c3 != c:
            out.append((f"{level}:canonical-string-changes-after-read-only-queries",
                        f"{level} {text!r} printed as {c!r}; after generate() and gen_reaction_graph() the same object prints as {c3!r}"))
    return out


def doc_strings():
    """every quoted string in README.md, SI.md and tests/ that looks like notation"""
    found = set()
    rx = re.compile(r'"([^"\n]{2,400})"|`([^`\n]{2,400})`')
    for rel in ("README.md", "SI.md", "tests"):
        p = os.path.join(common.REPO, rel)
        files = [p] if os.path.isfile(p) else [os.path.join(p, f) for f in sorted(os.listdir(p)) if f.endswith(".py")]
        for f in files:
            try:
                txt = open(f, encoding="utf8", errors="ignore").read()
            except OSError:
                continue
            for m in rx.finditer(txt):
                s = m.group(1) or m.group(2)
                if any(ch in s for ch in "{$<>") or ".|" in s:
                    if not any(bad in s for bad in ("import ", "assert ", "==", "print(", "def ", "http")):
                        found.add(s)
    return sorted(found)


def run(tier):
    g = common.import_repo()
    v = Verdict("C01", tier)
    rnd = random.Random(common.seed() + 101)
    counts = {"descriptor": 0, "token": 0, "stochastic": 0, "molecule": 0, "system": 0}
    samples = []

    def do(level, text, parse, gen=False, single=False):
        r = roundtrip(g, level, text, parse, gen, single)
        if r is None:
            return False
        counts[level] += 1
        for key, msg in r:
            v.violation(f"C01:{key}", msg, {"level": level, "text": text})
        return True

    mk_bd = lambda t: g.BondDescriptor(t, 0, "", 0)
    mk_tok = lambda t: g.SmilesToken(t, 0, 0)
    mk_sto = lambda t: g.Stochastic(t, 0)
    # descriptors: every symbol x id form x weight syntax
    for sym in "$<>":
        for i in ("", "0", "1", "12", "123"):
            for w in ("", "|2|", "|2.|", "|.5|", "|0.5|", "|2e0|", "| 3 |", "|0|", "|1|", "|1.0|", "|1 2 3|", "|1. 0 .5|", "|0.5 0.5|", "|0 0|", "| 2 2  2 2 |"):
                do("descriptor", f"[{sym}{i}{w}]", mk_bd)
    do("descriptor", "[]", mk_bd)
    # tokens enumerated by TLC
    L = 8 if tier == "quick" else 10
    toks, rt = TK.enumerate_tokens(L)
    for tok in toks:
        for k in range(2 if tier == "quick" else 4):
            text, tast, atoms = TK.concretise(tok, rnd, plain=(k == 0))
            do("token", text, mk_tok)
    # molecule shapes enumerated by TLC
    shp, rs = SH.enumerate_shapes(True)
    step_gen = 23 if tier == "quick" else 5
    for n, sh in enumerate(shp):
        m = SH.concretise(sh, n)
        variants = ((0, ""),) if tier == "quick" and n % 4 else ((0, ""), (1, " "), (2, ""), (3, " "))
        for style, ws in variants:
            text = m.text(style=style, ws=ws)
            is_sys = m.mix is not None
            ok = do("system" if is_sys else "molecule", text, g.System if is_sys else g.Molecule, gen=(n % step_gen == 0 and style == 0),
                    single=not is_sys)
            if ok and len(samples) < 5 and n % 997 == 3:
                samples.append(text)
        if not m.mix and len(m.elems) == 1:
            do("stochastic", m.text(), mk_sto, gen=(n % step_gen == 0), single=True)
    # systems of several components: every combination of written specifiers over a small grid (a share of 0 included); whatever the
    # parser accepts has to round-trip
    import itertools
    comps_ = ["CCCO", "CC(C)O", "CC{[$][$]CC[$][$]}|gauss(60, 5)|CO"]
    specs_ = [".|0%|", ".|25%|", ".|33.33333%|", ".|50%|", ".|75%|", ".|100%|", ".|0|", ".|500|", ".|1500|", ""]     # (a third: the remainder of the last component is no round number)
    n_sys = 0
    for k in (2, 3):
        for combo in itertools.product(specs_, repeat=k):
            if any(sp == "" for sp in combo[:-1]):
                continue        # only the last component can be written without a specifier
            text = "".join(c + sp for c, sp in zip(comps_, combo))
            n_sys += 1
            do("system", text, g.System, gen=False)
    # the same system text parsed again in the same process - with another supplied system mass in between: every parse denotes the same object,
    # and a parsed object does not change when another one is made
    for T_ in ("CCO.|25%|CC{[$][$]CC[$][$]}|gauss(60, 5)|CO.|75%|", "CCCO.|40%|CC(C)O.|60%|"):
        n_sys += 1
        try:
            first_ = g.System(T_)
            a_ = str(first_)
            with_ = g.System(T_, 2000.0)
            b_ = str(with_)
            again_ = g.System(T_)
            c_ = str(again_)
        except Exception as exc:
            v.violation("C01:system:parsed-again-rejected", f"System({T_!r}) parsed with and without a supplied mass in one process: {type(exc).__name__}: {str(exc)[:100]}", {"text": T_})
            continue
        if c_ != a_ or again_.generable != first_.generable:
            v.violation("C01:system:canonical-string-depends-on-earlier-systems", f"System({T_!r}) prints {a_!r} (generable={first_.generable}); parsed again after System(text, 2000.0) it prints {c_!r} "
                                                                                 f"(generable={again_.generable})", {"text": T_})
        if str(first_) != a_ or str(with_) != b_:
            v.violation("C01:system:parsed-object-changed-by-a-later-parse", f"System({T_!r}): an object printed {a_!r} / {b_!r} and prints {str(first_)!r} / {str(with_)!r} after later parses of the same text",
                        {"text": T_})
        try:
            g.System(T_, 4000.0)
        except Exception as exc:
            v.violation("C01:system:parsed-again-rejected", f"System({T_!r}, 4000.0) after System(text, 2000.0): {type(exc).__name__}: {str(exc)[:100]}", {"text": T_})
    # distributions whose written parameters are not what the object keeps (uniform truncates to integers): the canonical string has to
    # denote the law the parsed object draws from
    from .gast import M as M_, S as S_
    for fam_, par_ in (("uniform", [12.9, 72.1]), ("uniform", [20.9, 90.1]), ("gauss", [45.5, 7.25]), ("log_normal", [80.5, 1.15]), ("schulz_zimm", [120.5, 100.25])):
        do("molecule", M_("C[>]", S_("[>]", ["[<]CC[>]"], [], "[<]", (fam_, par_)), "[<]O").text(), g.Molecule, gen=True, single=True)
    # instance library and seeded archetypes
    lib = I.core_instances() + I.extra_instances() + I.chem_instances(tier) + [I.random_instance(rnd, "small") for _ in range(40 if tier == "quick" else 300)]
    for m in lib:
        for style, ws in ((0, ""), (1, " "), (3, " ")):
            do("molecule", m.text(style=style, ws=ws), g.Molecule, gen=(style == 0), single=True)
        do("system", m.text() + ".|3000|", g.System, gen=False)
    # strings documented in README, SI.md and tests
    docs = doc_strings()
    ndoc = 0
    for s in docs:
        for level, parse, single in (("system", g.System, False), ("molecule", g.Molecule, True), ("stochastic", mk_sto, True), ("token", mk_tok, False),
                                     ("descriptor", mk_bd, False)):
            if level == "molecule" and ".|" in s:
                single = False
            if level in ("token", "descriptor") and ("{" in s or ".|" in s):
                continue
            if do(level, s, parse, gen=False, single=single and ".|" not in s):
                ndoc += 1
                break
    v.coverage = {"states": rt.distinct + rs.distinct, "transitions": rt.generated + rs.generated,
                  "traces_validated_against_impl": sum(counts.values()),
                  "accepted_strings_round_tripped": counts, "token_texts_from_TLC": len(toks), "shapes_from_TLC": len(shp),
                  "documented_strings_found": len(docs), "documented_strings_accepted": ndoc,
                  "samples": samples or ["(see counts)"]}
    v.assumptions = ["erasure = deleting every |...| segment of the canonical string (regular expression \\|[^|]*\\|)",
                     "float fields are compared to 1e-9 relative",
                     "generation equality is checked on a subset (every n-th shape, all library instances) with two seeds"]
    return v.finish()
