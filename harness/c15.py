"""C15 - ill-formed notation and misuse are rejected, never silently reinterpreted; parsing terminates."""
import copy
import random
import signal
import time

import numpy as np

from . import common, tokens as TK, instances as I, shapes as SH
from .common import Verdict, MachineryError
from .gast import Token, Desc, Sto, Mol, Dist


class Timeout(Exception):
    pass


def _alarm(signum, frame):
    raise Timeout()


def bounded(fn, seconds=60):
    signal.signal(signal.SIGALRM, _alarm)
    signal.alarm(seconds)
    try:
        return fn()
    finally:
        signal.alarm(0)


def outcome(g, text, kind="molecule", seeds=(1, 2, 3)):
    """-> ('parse-raises', exc) | ('not-generable',) | ('generate-raises', exc) | ('molecule', smiles) | ('timeout',)"""
    try:
        def parse():
            if kind == "token":
                return g.SmilesToken(text, 0, 0)
            if kind == "system":
                return g.System(text)
            return g.Molecule(text)
        obj = bounded(parse)
    except Timeout:
        return ("timeout",)
    except Exception as exc:
        # a rejection must not depend on the text having been seen before: the same text is parsed once more in this process
        try:
            obj = bounded(parse)
        except Exception:
            return ("parse-raises", type(exc).__name__)
        if kind == "token":
            return ("parsed", ["accepted on the SECOND parse of the same text"] + [(b.descriptor, b.atom_bonding_to) for b in obj.bond_descriptors])
        return ("molecule", "accepted on the SECOND parse of the same text: " + str(obj), None)
    if kind == "token":
        return ("parsed", [(b.descriptor, b.atom_bonding_to) for b in obj.bond_descriptors])
    try:
        gen = obj.generable
    except Exception as exc:
        return ("parse-raises", "generable:" + type(exc).__name__)
    res = None
    for s in seeds:
        try:
            m = bounded(lambda: obj.generate(rng=np.random.default_rng(s)), 180)
            return ("molecule", m.smiles, gen)
        except Timeout:
            return ("timeout",)
        except Exception as exc:
            res = ("generate-raises", type(exc).__name__, gen)
    return res if gen else ("not-generable", res[1] if res else "")


# ---- structural rules on symbol sequences (the rules the statement lists) ----
def rule_violated(seq):
    depth = 0
    for s in seq:
        if s == "(":
            depth += 1
        elif s == ")":
            depth -= 1
            if depth < 0:
                return "unbalanced-branch"
    if depth != 0:
        return "unbalanced-branch"
    for i, s in enumerate(seq):
        if s == "D" and i > 0 and i + 1 < len(seq):
            nxt = seq[i + 1]
            nn = seq[i + 2] if i + 2 < len(seq) else ""
            # the descriptor stands between the atom it is attached to and a further ATOM
            if nxt == "A" or (nxt in "(=#" and nn == "A"):
                return "descriptor-bonds-two-atoms"
    return None


def seq_text(seq, rnd):
    """concretise a (possibly ill-formed) symbol sequence with carbon atoms"""
    out = ""
    ring = []
    for s in seq:
        if s == "A":
            out += "C"
        elif s == "D":
            out += rnd.choice(["[$]", "[<]", "[>]", "[$1]", "[<|2|]"])
        elif s == "R":
            d = "1" if "1" not in ring else "2"
            ring.append(d)
            out += d
        elif s == "r":
            out += ring.pop() if ring else "1"
        else:
            out += s
    return out


# ---- breaking operators on molecule ASTs ----
def break_ops(m: Mol, rnd):
    """yield (rule, text, expectation) ; expectation in {'parse', 'generate'}: rejected at parse, or at the latest at generate"""
    base = m.text()
    stos = [e for e in m.elems if isinstance(e, Sto)]
    if not stos:
        return
    # unknown distribution name
    for bad in ("gaus", "normal", "Gauss", "schulzzimm", "log-normal", "flory", "uniformm"[:-1] + "x"):
        for e in stos:
            if e.dist is not None:
                t = base.replace(e.dist.text(), "|" + bad + "(" + ", ".join(str(p) for p in e.dist.par) + ")|", 1)
                yield ("unknown-distribution-name", t, "generate")
                break
    # transition list of wrong length
    for e in stos:
        n = sum(len(t.descs) for t in e.rep + e.end)
        for delta, where in ((-1, "rep"), (1, "rep"), (-1, "end"), (1, "end"), (2, "end")):
            m2 = copy.deepcopy(m)
            e2 = [x for x in m2.elems if isinstance(x, Sto)][stos.index(e)]
            if where == "end" and not e2.end:
                continue
            d = e2.rep[0].descs[-1] if where == "rep" else e2.end[-1].descs[0]
            from fractions import Fraction
            d.tr = [Fraction(1)] * max(2, n + delta) if n + delta != n and max(2, n + delta) != n else None
            d.w = None
            if d.tr is None:
                continue
            for t in m2.tokens():
                if hasattr(t, "_chem"):
                    del t._chem
            yield ("transition-list-length", m2.text(), "parse")
    # negative weight
    for k in range(2):
        m2 = copy.deepcopy(m)
        ds = [d for t in m2.tokens() for d in t.descs if not d.implicit and d.tr is None]
        if ds:
            from fractions import Fraction
            rnd.choice(ds).w = Fraction(-1 - k)
            yield ("negative-weight", m2.text(), "generate")
    # negative weight written as a transition list of the right length whose entries are negative (its weight is the list's sum)
    for e in stos:
        n = sum(len(t.descs) for t in e.rep + e.end)
        for pattern in ("all", "one"):
            m2 = copy.deepcopy(m)
            e2 = [x for x in m2.elems if isinstance(x, Sto)][stos.index(e)]
            ds = [d for t in e2.rep for d in t.descs if not d.implicit]
            if not ds or n < 2:
                continue
            from fractions import Fraction
            d = ds[-1]
            d.w = None
            d.tr = [Fraction(-1)] * n if pattern == "all" else [Fraction(0)] * (n - 1) + [Fraction(-3)]
            for t in m2.tokens():
                if hasattr(t, "_chem"):
                    del t._chem
            yield ("negative-weight", m2.text(), "generate")
        break
    # text after a mixture specifier / percentages outside 0..100
    yield ("text-after-mixture", base + ".|100|CC", "parse")
    yield ("text-after-mixture", base + ".|10%| C", "parse")
    yield ("percentage-out-of-range", base + ".|120%|", "parse")
    yield ("percentage-out-of-range", base + ".|-3%|", "parse")
    yield ("negative-mass", base + ".|-500|", "parse")
    # not generable: no distribution
    m2 = copy.deepcopy(m)
    [x for x in m2.elems if isinstance(x, Sto)][-1].dist = None
    yield ("generate-non-generable", m2.text(), "generate")
    # missing prefix for a non-empty left terminal
    if isinstance(m.elems[0], Token) and isinstance(m.elems[1], Sto) and m.elems[1].left.sym != "":
        m2 = copy.deepcopy(m)
        m2.elems = m2.elems[1:]
        yield ("missing-prefix", m2.text(), "generate")
        # prefix whose open descriptor differs from the left terminal: other symbol, other id
        for how in ("symbol", "id"):
            m2 = copy.deepcopy(m)
            p = m2.elems[0]
            ds = [d for d in p.descs if not d.implicit]
            if not ds:
                continue
            d = ds[-1]
            if how == "symbol":
                d.sym = {"$": "<", "<": "$", ">": "$"}[d.sym]
            else:
                d.id = 7 if d.id != 7 else 3
                # make sure repeat units matching the prefix's new id exist, so that nothing else can refuse by accident
                s2 = m2.elems[1]
                t0 = copy.deepcopy(s2.rep[0])
                for dd in t0.descs:
                    dd.id = d.id
                e0 = [copy.deepcopy(t) for t in s2.end]
                for t in e0:
                    for dd in t.descs:
                        dd.id = d.id
                s2.rep.append(t0)
                s2.end += e0
                for t in m2.tokens():
                    for dd in t.descs:
                        if dd.tr is not None:
                            dd.tr = None
            for t in m2.tokens():
                if hasattr(t, "_chem"):
                    del t._chem
            yield (f"prefix-mismatch-{how}", m2.text(), "generate")
        # ... the same misuse written the other way round: the left terminal differs from everything else
        for how in ("symbol", "id"):
            if any(d.implicit for d in m.elems[0].descs):
                break      # an automatically inserted descriptor follows the left terminal: nothing is mismatched
            m2 = copy.deepcopy(m)
            lt = m2.elems[1].left
            if how == "symbol":
                lt.sym = {"$": "<", "<": "$", ">": "$"}[lt.sym]
            else:
                lt.id = 7 if lt.id != 7 else 3
            yield (f"left-terminal-differs-{how}", m2.text(), "generate")
    # unbalanced braces / brackets
    yield ("unbalanced-brace", base.replace("}", "", 1), "generate")
    i = base.find("]")
    yield ("unbalanced-bracket", base[:i] + base[i + 1:], "generate")
    yield ("unknown-descriptor-symbol", base.replace("[<]", "[%]", 1).replace("[$]", "[%]", 1) if ("[<]" in base or "[$]" in base) else base + "[%]", "generate")


def run(tier):
    g = common.import_repo()
    v = Verdict("C15", tier)
    rnd = random.Random(common.seed() + 1515)
    n_tok = n_obj = n_fuzz = 0
    samples = []
    rules = {}
    # (1) token level: breaking actions of the specification + every single-symbol edit of every valid text
    L = 7 if tier == "quick" else 8
    broken, rb = TK.enumerate_tokens(L, breaking=True)
    valid = {tuple(t["text"]) for t in broken if t["broken"] == ""}
    cases = {}
    for t in broken:
        if t["broken"]:
            cases[tuple(t["text"])] = t["broken"]
    for seq in list(valid):
        for i in range(len(seq) + 1):
            for sym in ("(", ")", "A", "D"):
                s2 = seq[:i] + (sym,) + seq[i:]
                if s2 not in valid and len(s2) <= L + 1:
                    r = rule_violated(s2)
                    if r:
                        cases.setdefault(s2, r)
        for i in range(len(seq)):
            s2 = seq[:i] + seq[i + 1:]
            if s2 and s2 not in valid:
                r = rule_violated(s2)
                if r:
                    cases.setdefault(s2, r)
    for seq, rule in sorted(cases.items()):
        if "A" not in seq:
            continue
        text = seq_text(seq, rnd)
        o = outcome(g, text, "token")
        n_tok += 1
        rules[rule] = rules.get(rule, 0) + 1
        if o[0] == "timeout":
            v.violation("C15:parse-does-not-terminate", f"SmilesToken({text!r}) did not return within the time bound", {"text": text})
        elif o[0] != "parse-raises":
            v.violation(f"C15:token-accepted:{rule}", f"SmilesToken({text!r}) ({rule}) is accepted and read as {o[1]}", {"text": text, "symbols": "".join(seq)})
    for text, rule in (("C[$", "unclosed-bracket"), ("[<CC[>]", "unclosed-bracket"), ("C[%]", "unknown-descriptor-symbol"), ("[&1]CC", "unknown-descriptor-symbol"),
                       ("C[Xx]C[$]", "invalid-atom"), ("C[$[$]]", "nested-descriptor")):
        o = outcome(g, text, "token")
        n_tok += 1
        rules[rule] = rules.get(rule, 0) + 1
        if o[0] != "parse-raises":
            v.violation(f"C15:token-accepted:{rule}", f"SmilesToken({text!r}) ({rule}) is accepted and read as {o[1:]}", {"text": text})
    # (2) object level: valid instances x breaking operators
    lib = [m for m in I.core_instances() + I.extra_instances() if not m.name.startswith("neg")]
    shp, rs = SH.enumerate_shapes(False)
    step = 40 if tier == "quick" else 6
    lib += [SH.concretise(sh, n) for n, sh in enumerate(shp) if n % step == 0]
    lib += [I.random_instance(rnd, "small") for _ in range(10 if tier == "quick" else 80)]
    for m in lib:
        for rule, text, expect in break_ops(m, rnd):
            if text == m.text():
                continue
            kind = "molecule"
            o = outcome(g, text, kind)
            n_obj += 1
            rules[rule] = rules.get(rule, 0) + 1
            if len(samples) < 6 and n_obj % 97 == 1:
                samples.append({"rule": rule, "text": text, "outcome": list(o)})
            if o[0] == "timeout":
                v.violation("C15:does-not-terminate", f"{text!r} ({rule}): parse / generate did not return within the time bound", {"text": text})
            elif o[0] == "molecule":
                v.violation(f"C15:accepted:{rule}", f"{text!r} violates '{rule}' but parses and generates {o[1]!r} (generable={o[2]})", {"text": text, "rule": rule})
            elif expect == "parse" and o[0] != "parse-raises":
                v.violation(f"C15:not-rejected-at-parse:{rule}", f"{text!r} violates '{rule}' but is accepted by the parser (later outcome {o})", {"text": text, "rule": rule})
            elif rule == "negative-weight" and o[0] == "generate-raises" and o[2]:
                v.violation("C15:negative-weight-reported-generable", f"{text!r}: negative weight but generable is True", {"text": text})
    # (2b) systems with a component that cannot be generated (no distribution / negative weight), in every position: the system is not generable
    #      and both entry points refuse (whichever component a random pick would have drawn)
    good = ["CCO", "CC{[$][$]CC[$][$]}|gauss(50, 5)|CO"]
    # a negative absolute mass in a system must not turn into "the remaining share"
    for text in ("CC.|-500|CCO.|60%|", "CC.|60%|CCO.|-500|", "CC.|-500|"):
        for sm in (None, 1000.0):
            n_obj += 1
            rules["negative-mass"] = rules.get("negative-mass", 0) + 1
            try:
                so = g.System(text, sm) if sm else g.System(text)
                v.violation("C15:accepted:negative-mass:system", f"System({text!r}, {sm}) is accepted and reads {str(so)!r}", {"text": text})
            except Exception:
                pass
    bad = ["CC{[$][$]CC[$][$]}CN", "CC{[$][$|-2|]CC[$][$]}|gauss(50, 5)|CN"]
    for b in bad:
        for pos in range(3):
            comps = [good[0], good[1]]
            comps.insert(pos, b)
            text = "".join(c + sp for c, sp in zip(comps, (".|30%|", ".|30%|", ".|400|")))
            rules["system-with-non-generable-component"] = rules.get("system-with-non-generable-component", 0) + 1
            n_obj += 1
            try:
                so = g.System(text)
            except Exception:
                continue          # rejected at construction: fine
            if so.generable:
                v.violation("C15:system-with-non-generable-component-reported-generable", f"System({text!r}).generable is True although component {pos + 1} cannot be generated", {"text": text})
            for seed in range(4):
                for how, call in (("generate", lambda r: so.generate(rng=r)), ("generator", lambda r: next(iter(type(so).generator.fget(so, r))))):
                    try:
                        mg = call(np.random.default_rng(seed))
                        v.violation(f"C15:accepted:generate-non-generable:system:{how}", f"System({text!r}).{how} returns {getattr(mg, 'smiles', mg)!r} although the system is not generable", {"text": text})
                        break
                    except Exception:
                        pass
    # (2c) misuse after ordinary use in the same process: a system whose mass cannot be determined stays not generable after another system was given
    #      its mass by the caller; a token with a negative weight is refused by MolGen although a token with the same atoms was built before
    try:
        g.System("CCO.|40%|CC{[$][$]CC[$][$]}|gauss(50, 5)|CO.|60%|", 5000.0)
    except Exception:
        pass
    for text in ("CCCCC.|10%|CC{[$][$]CC[$][$]}|gauss(50, 5)|CO", "CCO.|40%|CCC.|60%|"):
        rules["under-determined-system-after-a-supplied-mass"] = rules.get("under-determined-system-after-a-supplied-mass", 0) + 1
        n_obj += 1
        try:
            so = g.System(text)
        except Exception:
            continue
        if so.generable:
            v.violation("C15:under-determined-system-reported-generable:after-a-supplied-mass", f"System({text!r}).generable is True (system mass {getattr(so, 'system_mass', None)}) after another system "
                                                                                              f"was constructed with a supplied mass; nothing determines the mass of this one", {"text": text})
        for how, call in (("generate", lambda r: so.generate(rng=r)), ("generator", lambda r: next(iter(type(so).generator.fget(so, r))))):
            try:
                mg = call(np.random.default_rng(1))
                v.violation(f"C15:accepted:generate-non-generable:system:{how}:after-a-supplied-mass", f"System({text!r}).{how} returns {getattr(mg, 'smiles', mg)!r} although the system is not generable", {"text": text})
            except Exception:
                pass
    try:
        so = g.System("CCO.|250|")          # a determined system is still accepted afterwards
        if not so.generable:
            raise RuntimeError("not generable")
    except Exception as exc:
        v.violation("C15:well-formed-system-rejected:after-a-supplied-mass", f"System('CCO.|250|') after a system with a supplied mass: {type(exc).__name__}: {str(exc)[:100]}", {"text": "CCO.|250|"})
    from gbigsmiles.mol_gen import MolGen
    for okt, badt in (("[<]CC(C)[>]", "[<]CC(C)[>|-1.0|]"), ("[<]CO[>]", "[<|-2.0|]CO[>]"), ("[$]CC[$]", "[$|-0.5|]CC[$]")):
        rules["negative-weight-token-after-its-look-alike"] = rules.get("negative-weight-token-after-its-look-alike", 0) + 1
        n_obj += 1
        try:
            MolGen(g.SmilesToken(okt, 0, 0))
        except Exception as exc:
            raise MachineryError(f"MolGen of {okt}: {exc}")
        try:
            tok = g.SmilesToken(badt, 0, 0)
        except Exception:
            continue          # refused at parse: fine
        if tok.generable:
            v.violation("C15:negative-weight-reported-generable", f"SmilesToken({badt!r}).generable is True", {"text": badt})
        try:
            mg = MolGen(tok)
            v.violation("C15:accepted:generate-non-generable:token:after-its-look-alike", f"MolGen(SmilesToken({badt!r})) is built (after MolGen of {okt!r}) although the token is not generable", {"text": badt})
        except Exception:
            pass
    # (3) byte-level mutations: parsing terminates
    alphabet = "[]{}()|.,;$<>=#%0123456789 CNOHFclBr"
    bases = [m.text() + x for m in lib[:40] for x in ("", ".|1000|")]
    n_f = 600 if tier == "quick" else 12000
    slow = 0
    for k in range(n_f):
        s = list(rnd.choice(bases))
        for _ in range(rnd.randint(1, 3)):
            op = rnd.random()
            i = rnd.randrange(len(s) + 1)
            if op < 0.4 and s:
                del s[min(i, len(s) - 1)]
            elif op < 0.8:
                s.insert(i, rnd.choice(alphabet))
            elif s:
                s[min(i, len(s) - 1)] = rnd.choice(alphabet)
        text = "".join(s)
        t0 = time.time()
        try:
            bounded(lambda: g.System(text), 60)
        except Timeout:
            v.violation("C15:parse-does-not-terminate", f"System({text!r}) did not return within 60 s", {"text": text})
        except Exception:
            pass
        n_fuzz += 1
        slow = max(slow, time.time() - t0)
    # system texts (spec/SystemScan.tla): text after a mixture specifier, termination of System / Molecule on every piece sequence
    from . import sysscan
    sviol, scov = sysscan.run(5 if tier == "quick" else 6)
    for key, msg in sviol:
        if key.startswith("C15:"):
            v.violation(key, msg, {"text": msg})
    v.coverage = {"system_texts": scov, "states": rb.distinct + rs.distinct + scov["states"], "transitions": rb.generated + rs.generated,
                  "traces_validated_against_impl": n_tok + n_obj,
                  "ill_formed_token_texts": n_tok, "broken_objects": n_obj, "byte_level_mutations_parsed": n_fuzz, "slowest_parse_s": round(slow, 3),
                  "cases_per_rule": rules, "samples": samples}
    v.assumptions = ["any exception counts as a rejection; a returned molecule (or, at token level, a returned token) is the violation",
                     "ill-formed token texts: breaking actions of TokenScan plus every single-symbol insertion / deletion on every valid text that violates a rule listed in the statement "
                     "(branch balance in written order, descriptor bonding two atoms)",
                     "the termination clause on arbitrary bytes is bounded-time fuzzing (60 s per parse), not model checking"]
    return v.finish()
