"""C20 - force-field typing is total, element-consistent, numbering- and history-free."""
import numpy as np

from . import common, history as H
from .common import Verdict, MachineryError

STRINGS = [
    "CCC(C){[>][<]CC([>])c1ccccc1[<]}|gauss(300, 20)|{[>][<]CC([>])C(=O)OC[<]}|gauss(200, 20)|[H]",
    "C{[>][<]CC[>][<]}|gauss(80, 5)|CO",
    "{[][<]CC(C)[>]; [<][H], [>]O []}|uniform(60, 120)|",
    "N{[$][$]CC(=O)O[$][$]}|gauss(150, 10)|F",
    # chemistry the bundled rules cannot type completely: the dedicated error must carry the partial assignment
    "C{[>][<][Si](C)(C)O[>][<]}|gauss(150, 5)|[Si](C)(C)C",
    "FC(F)(F){[>][<]C(F)(F)C(F)(F)[>][<]}|gauss(150, 5)|F",
    # hetero-aromatic side groups (rule strings that occur twice in the bundled rule file)
    "C{[>][<]CC([>])n1ccnc1[<]}|gauss(250, 20)|[H]",
    # molecules that END partially generated: a branching object with a non-empty right terminal and nothing after it
    "CC{[>][<]CC([>])C[>]; [<][H][<]}|gauss(200, 20)|",
    "CC{[>][<]CC[>][<]}|gauss(100, 10)|",
]
# the same chemistry written with another atom order (typing must not depend on numbering)
EQUIVALENT = [
    ("C{[>][<]CC[>][<]}|gauss(80, 0)|CO", "OC{[>][>]CC[<][<]}|gauss(80, 0)|C"),
    ("{[][<]CC(C)[>]; [<][H], [>]O []}|gauss(90, 0)|", "{[][<]C(C)C[>]; [<]O, [>][H] []}|gauss(90, 0)|"),
]


def element_mass(z):
    from rdkit import Chem
    return Chem.GetPeriodicTable().GetAtomicWeight(z)


def check_typed(v, what, obs, key):
    """totality and element consistency of one typing observation"""
    if obs[0] == "typed":
        _, smi, natoms, nff, per_atom = obs
        if nff != natoms:
            v.violation(f"C20:not-total:{key}", f"{what}: {nff} parameter sets for {natoms} atoms of {smi} and no assignment error", {"what": what})
        for z, prm in per_atom:
            if prm is None:
                v.violation(f"C20:atom-without-parameters:{key}", f"{what}: an atom with Z={z} of {smi} has no parameter set", {"what": what})
            elif abs(prm[0] - element_mass(z)) > 0.02:
                v.violation(f"C20:mass-of-other-element:{key}", f"{what}: atom with Z={z} got parameter mass {prm[0]} (type {prm[1]}), element mass {element_mass(z):.4f}",
                            {"what": what})
    elif obs[0] == "assignment-error":
        if obs[1] is None or not obs[2]:
            v.violation(f"C20:assignment-error-without-partial-assignment:{key}", f"{what}: FfAssignmentError does not carry the partial assignment / molecule: {obs}", {"what": what})
        else:
            if obs[4] is not None and obs[1] >= obs[4]:
                v.violation(f"C20:assignment-error-although-total:{key}", f"{what}: assignment error but {obs[1]} of {obs[4]} atoms carry parameters", {"what": what})
            for z, prm in obs[3]:
                if isinstance(prm, str):
                    v.violation(f"C20:partial-assignment-is-not-parameter-sets:{key}", f"{what}: the partial assignment of the error maps an atom (Z={z}) to {prm}", {"what": what})
                    break
                if abs(prm[0] - element_mass(z)) > 0.02:
                    v.violation(f"C20:mass-of-other-element:{key}", f"{what}: partial assignment: atom with Z={z} got parameter mass {prm[0]}", {"what": what})
                    break
    elif obs[0] == "raises":
        v.violation(f"C20:unexpected-exception:{obs[1]}:{key}", f"{what}: typing raises {obs[1]} (neither a full assignment nor the dedicated assignment error)", {"what": what})


def function_level(g, v, tier):
    import random
    from rdkit import Chem
    from . import typing as TY, instances as I
    from gbigsmiles import forcefield_helper as FH
    rb = TY.RuleBase(g)
    th = TY.model_theorems(3, (3, 5, 5, 2)) if tier == "quick" else TY.model_theorems(4, (3, 5, 5, 2))
    if not th.ok:
        print(th.tail(30))
        raise MachineryError("TypingMC: " + str(th.invariant_violated() or "TLC failed"))
    # unbounded: numbering independence of the specified assignment, for every number of atoms / rule list / match relation / permutation
    n_proved, _, t_pr = common.run_tlapm("TypingProofs")
    texts = [s for s in STRINGS] + [m.text() for m in I.core_instances() + I.extra_instances() + I.chem_instances(tier)
                                     if not m.name.startswith(("neg", "negative", "plain"))]
    rnd = random.Random(common.seed() + 20)
    K = 3 if tier == "quick" else 10
    assigner = FH.get_assignment_class(None, None)
    obs, meta = [], []
    for text in texts:
        try:
            mg = g.Molecule(text).generate(rng=np.random.default_rng(5))
            if len(mg.bond_descriptors) or mg.mol.GetNumAtoms() > 60:
                continue
            mol = Chem.AddHs(mg.mol)
        except Exception:
            continue      # generation is not C20's matter
        ref = len(obs) + 1
        obs.append(TY.observe(rb, assigner, mol, FH.FfAssignmentError))
        meta.append((text, "numbering of generation"))
        # the public entry point, in the numbering generation produced, must agree with the assignment object
        try:
            ff, m2 = mg.forcefield_types
            api = [[] if ff.get(a) is None else (rb.types_with(ff[a]) or [0]) for a in range(m2.GetNumAtoms())]
            api_kind = "typed"
        except FH.FfAssignmentError as exc:
            part = exc.incomplete_ff_dict if isinstance(exc.incomplete_ff_dict, dict) else {}
            api = [[] if part.get(a) is None else (rb.types_with(part[a]) or [0]) for a in range(mol.GetNumAtoms())]
            api_kind = "assignment-error"
        if api_kind != obs[-1]["kind"] or api != obs[-1]["got"]:
            v.violation("C20:entry-point-differs-from-assignment-object", f"{text}: MolGen.forcefield_types and get_type_assignments on the same molecule differ", {"string": text})
        n = mol.GetNumAtoms()
        for _ in range(K):
            order = list(range(n))
            rnd.shuffle(order)                      # new atom i is old atom order[i]
            perm = [0] * n
            for new, old in enumerate(order):
                perm[old] = new + 1
            obs.append(TY.observe(rb, assigner, Chem.RenumberAtoms(mol, order), FH.FfAssignmentError, ref=ref, perm=perm))
            meta.append((text, "random renumbering"))
    r = TY.validate(rb, obs)
    if not r.ok:
        print(r.tail(30))
        raise MachineryError("TLC failed on TypingTrace")
    diverge = []
    for d in r.printed:
        if "failed" not in d:
            continue
        text, how = meta[d["obs"] - 1]
        for c in d["failed"]:
            name = c.split(":")[0]
            if name == "numbering":
                v.violation("C20:depends-on-atom-numbering:function", f"{text} ({how}): the parameter sets of the renumbered molecule are not the renumbered parameter sets", {"string": text})
            elif name in ("outcome", "typed-atoms"):
                v.violation(f"C20:totality:{c}", f"{text} ({how}): {c} - every atom matched by a rule gets a parameter set, the assignment error is raised iff an atom is matched by no rule "
                                                 f"and carries exactly the partial assignment", {"string": text})
            elif name == "spec-type-mass-is-not-the-element's":
                v.violation("C20:mass-of-other-element:rule-files", f"{text} ({how}): the type of the longest matching rule has the mass of another element", {"string": text})
            else:
                diverge.append(f"{text} ({how}): {c}")
    if diverge:
        v.notes.append("the implementation chooses another type than spec/Typing.tla for some atom (not a clause of C20 unless numbering or masses are affected): " + "; ".join(diverge[:5]))
    return {"theorem_states": th.distinct, "tlaps_obligations_proved": n_proved, "calls": len(obs), "molecules": sum(1 for m in meta if m[1].startswith("numbering")), "renumberings_per_molecule": K,
            "rules": len(rb.rules), "types": len(rb.type_names), "divergences_not_c20": len(diverge)}


def run(tier):
    g = common.import_repo()
    v = Verdict("C20", tier)
    strings = STRINGS
    seedmap = [[7, 8]] * len(strings)
    cfgs = ["default", "A", "B", "partial"]
    depth = 3 if tier == "quick" else 4
    hs, r = H.enumerate_histories(2 if tier == "thorough" else 1, len(strings), [1], cfgs, depth, ["parse", "type"])
    keys = sorted({(b["str"], b["op"], b["arg"]) for h in hs for b in h["base"] if b["op"] == "type"})
    base = H.baselines(strings, seedmap, keys)
    # (1) every baseline observation: total + element-consistent; copies of the files = defaults; partial refused
    for (sid, op, cfg), obs in sorted(base.items()):
        what = f"{strings[sid - 1]} typed with {cfg} files in a pristine process"
        if cfg == "partial" or obs[0] in ("partial-accepted", "partial-refused"):
            if obs[0] == "partial-accepted":
                v.violation("C20:partial-molecule-typed", f"{what}: a partially generated molecule was typed", {"string": strings[sid - 1]})
            elif obs[0] not in ("partial-refused", "not-partial"):
                v.violation(f"C20:partial:{obs[0]}", f"{what}: {obs}", {"string": strings[sid - 1]})
            continue
        check_typed(v, what, obs, f"{cfg}-files")
        d = base.get((sid, op, "default"))
        if cfg in ("A", "B") and d is not None and obs != d:
            v.violation(f"C20:copied-files-differ-from-defaults:{obs[0]}", f"{what}: result {str(obs)[:200]} differs from the default files' result {str(d)[:200]}",
                        {"string": strings[sid - 1], "cfg": cfg})
    # (2) histories: every typing observation equals its pristine baseline
    bad, n_obs = H.replay_all(strings, seedmap, hs, base)
    for b in bad:
        sid, op, arg = b["key"]
        ops = " ; ".join(f"{o['op']}({o['slot']},{o['arg']})" for o in b["history"])
        v.violation(f"C20:history-changes-typing:{arg}-files:{b['observed'][0]}",
                    f"history [{ops}]: step {b['step']} types {strings[sid - 1]!r} with {arg} files and observes {str(b['observed'])[:200]}; "
                    f"pristine baseline {str(b['baseline'])[:200]}", b)
    # (3) numbering: the same chemistry written in another atom order
    n_eq = 0
    for s1, s2 in EQUIVALENT:
        o1 = H.typing(g, g.Molecule(s1), "default")
        o2 = H.typing(g, g.Molecule(s2), "default")
        n_eq += 1
        if o1[0] == "typed" and o2[0] == "typed":
            if o1[1] != o2[1]:
                raise MachineryError(f"equivalent strings generate different molecules: {o1[1]} vs {o2[1]}")
            if o1[4] != o2[4]:
                v.violation("C20:depends-on-atom-numbering", f"{s1} and {s2} denote the same molecule {o1[1]} but are typed differently", {"s1": s1, "s2": s2})
        elif o1[0] != o2[0]:
            v.violation("C20:depends-on-atom-numbering", f"{s1} -> {o1[0]}, {s2} -> {o2[0]}", {"s1": s1, "s2": s2})
    # (4) function level: the assignment as a function of the match relation (spec/Typing.tla), in several atom numberings
    fn = function_level(g, v, tier)
    v.coverage = {"states": r.distinct + fn["theorem_states"] + fn["calls"], "transitions": r.generated + fn["theorem_states"],
                  "assignment_function": fn,
                  "traces_validated_against_impl": len(hs) + fn["calls"], "histories": len(hs), "depth": depth,
                  "typing_observations_compared": n_obs, "baseline_observations": len(keys), "renumbering_pairs": n_eq,
                  "samples": [hs[i]["h"] for i in (0, len(hs) // 2, len(hs) - 1)]}
    v.assumptions = ["parameter mass = element mass within 0.02 Da (OPLS masses are rounded)",
                     "numbering independence is tested through equivalent strings (same chemistry, tokens written in another atom order), compared as multisets of (element, parameters)"]
    return v.finish()
