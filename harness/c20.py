"""C20 - force-field typing is total, element-consistent, numbering- and history-free."""
import numpy as np

from . import common, history as H
from .common import Verdict, MachineryError

STRINGS = [
    "CCC(C){[>][<]CC([>])c1ccccc1[<]}|gauss(300, 20)|{[>][<]CC([>])C(=O)OC[<]}|gauss(200, 20)|[H]",
    "C{[>][<]CC[>][<]}|gauss(80, 5)|CO",
    "{[][<]CC(C)[>]; [<][H], [>]O []}|uniform(60, 120)|",
    "N{[$][$]CC(=O)O[$][$]}|gauss(150, 10)|F",
    # chemistry the bundled rules cannot type completely: the dedicated error must carry the partial assignment
    "C{[>][<][Si](C)(C)O[>][<]}|gauss(150, 5)|[Si](C)(C)C",
    "FC(F)(F){[>][<]C(F)(F)C(F)(F)[>][<]}|gauss(150, 5)|F",
    # hetero-aromatic side groups (rule strings that occur twice in the bundled rule file)
    "C{[>][<]CC([>])n1ccnc1[<]}|gauss(250, 20)|[H]",
    # molecules that END partially generated: a branching object with a non-empty right terminal and nothing after it
    "CC{[>][<]CC([>])C[>]; [<][H][<]}|gauss(200, 20)|",
    "CC{[>][<]CC[>][<]}|gauss(100, 10)|",
]
# the same chemistry written with another atom order (typing must not depend on numbering)
EQUIVALENT = [
    ("C{[>][<]CC[>][<]}|gauss(80, 0)|CO", "OC{[>][>]CC[<][<]}|gauss(80, 0)|C"),
    ("{[][<]CC(C)[>]; [<][H], [>]O []}|gauss(90, 0)|", "{[][<]C(C)C[>]; [<]O, [>][H] []}|gauss(90, 0)|"),
]


def element_mass(z):
    from rdkit import Chem
    return Chem.GetPeriodicTable().GetAtomicWeight(z)


def check_typed(v, what, obs, key):
    """totality and element consistency of one typing observation"""
    if obs[0] == "typed":
        _, smi, natoms, nff, per_atom = obs
        if nff != natoms:
            v.violation(f"C20:not-total:{key}", f"{what}: {nff} parameter sets for {natoms} atoms of {smi} and no assignment error", {"what": what})
        for z, prm in per_atom:
            if prm is None:
                v.violation(f"C20:atom-without-parameters:{key}", f"{what}: an atom with Z={z} of {smi} has no parameter set", {"what": what})
            elif abs(prm[0] - element_mass(z)) > 0.02:
                v.violation(f"C20:mass-of-other-element:{key}", f"{what}: atom with Z={z} got parameter mass {prm[0]} (type {prm[1]}), element mass {element_mass(z):.4f}",
                            {"what": what})
    elif obs[0] == "assignment-error":
        if obs[1] is None or not obs[2]:
            v.violation(f"C20:assignment-error-without-partial-assignment:{key}", f"{what}: FfAssignmentError does not carry the partial assignment / molecule: {obs}", {"what": what})
        else:
            if obs[4] is not None and obs[1] >= obs[4]:
                v.violation(f"C20:assignment-error-although-total:{key}", f"{what}: assignment error but {obs[1]} of {obs[4]} atoms carry parameters", {"what": what})
            for z, prm in obs[3]:
                if isinstance(prm, str):
                    v.violation(f"C20:partial-assignment-is-not-parameter-sets:{key}", f"{what}: the partial assignment of the error maps an atom (Z={z}) to {prm}", {"what": what})
                    break
                if abs(prm[0] - element_mass(z)) > 0.02:
                    v.violation(f"C20:mass-of-other-element:{key}", f"{what}: partial assignment: atom with Z={z} got parameter mass {prm[0]}", {"what": what})
                    break
    elif obs[0] == "raises":
        v.violation(f"C20:unexpected-exception:{obs[1]}:{key}", f"{what}: typing raises {obs[1]} (neither a full assignment nor the dedicated assignment error)", {"what": what})


def run(tier):
    g = common.import_repo()
    v = Verdict("C20", tier)
    strings = STRINGS
    seedmap = [[7, 8]] * len(strings)
    cfgs = ["default", "A", "B", "partial"]
    depth = 3 if tier == "quick" else 4
    hs, r = H.enumerate_histories(2 if tier == "thorough" else 1, len(strings), [1], cfgs, depth, ["parse", "type"])
    keys = sorted({(b["str"], b["op"], b["arg"]) for h in hs for b in h["base"] if b["op"] == "type"})
    base = H.baselines(strings, seedmap, keys)
    # (1) every baseline observation: total + element-consistent; copies of the files = defaults; partial refused
    for (sid, op, cfg), obs in sorted(base.items()):
        what = f"{strings[sid - 1]} typed with {cfg} files in a pristine process"
        if cfg == "partial" or obs[0] in ("partial-accepted", "partial-refused"):
            if obs[0] == "partial-accepted":
                v.violation("C20:partial-molecule-typed", f"{what}: a partially generated molecule was typed", {"string": strings[sid - 1]})
            elif obs[0] not in ("partial-refused", "not-partial"):
                v.violation(f"C20:partial:{obs[0]}", f"{what}: {obs}", {"string": strings[sid - 1]})
            continue
        check_typed(v, what, obs, f"{cfg}-files")
        d = base.get((sid, op, "default"))
        if cfg in ("A", "B") and d is not None and obs != d:
            v.violation(f"C20:copied-files-differ-from-defaults:{obs[0]}", f"{what}: result {str(obs)[:200]} differs from the default files' result {str(d)[:200]}",
                        {"string": strings[sid - 1], "cfg": cfg})
    # (2) histories: every typing observation equals its pristine baseline
    bad, n_obs = H.replay_all(strings, seedmap, hs, base)
    for b in bad:
        sid, op, arg = b["key"]
        ops = " ; ".join(f"{o['op']}({o['slot']},{o['arg']})" for o in b["history"])
        v.violation(f"C20:history-changes-typing:{arg}-files:{b['observed'][0]}",
                    f"history [{ops}]: step {b['step']} types {strings[sid - 1]!r} with {arg} files and observes {str(b['observed'])[:200]}; "
                    f"pristine baseline {str(b['baseline'])[:200]}", b)
    # (3) numbering: the same chemistry written in another atom order
    n_eq = 0
    for s1, s2 in EQUIVALENT:
        o1 = H.typing(g, g.Molecule(s1), "default")
        o2 = H.typing(g, g.Molecule(s2), "default")
        n_eq += 1
        if o1[0] == "typed" and o2[0] == "typed":
            if o1[1] != o2[1]:
                raise MachineryError(f"equivalent strings generate different molecules: {o1[1]} vs {o2[1]}")
            if o1[4] != o2[4]:
                v.violation("C20:depends-on-atom-numbering", f"{s1} and {s2} denote the same molecule {o1[1]} but are typed differently", {"s1": s1, "s2": s2})
        elif o1[0] != o2[0]:
            v.violation("C20:depends-on-atom-numbering", f"{s1} -> {o1[0]}, {s2} -> {o2[0]}", {"s1": s1, "s2": s2})
    v.coverage = {"states": r.distinct, "transitions": r.generated, "traces_validated_against_impl": len(hs), "histories": len(hs), "depth": depth,
                  "typing_observations_compared": n_obs, "baseline_observations": len(keys), "renumbering_pairs": n_eq,
                  "samples": [hs[i]["h"] for i in (0, len(hs) // 2, len(hs) - 1)]}
    v.assumptions = ["parameter mass = element mass within 0.02 Da (OPLS masses are rounded)",
                     "numbering independence is tested through equivalent strings (same chemistry, tokens written in another atom order), compared as multisets of (element, parameters)"]
    return v.finish()
