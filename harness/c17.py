"""C17 - the stochastic atom graph encodes all atoms, static bonds and admissible links."""
import os
import random
from fractions import Fraction

from . import common, gencheck as G, instances as I
from .common import Verdict, MachineryError, run_tlc, tla, Scratch
from .gast import Mol, Sto, Token, weight_scale

KINDS = (("static_weight", "static"), ("stochastic_weight", "stochastic"), ("termination_weight", "termination"), ("transition_weight", "transition"))


def spec_atom_graph(mol: Mol, tag="ag", timeout=300):
    with Scratch(tag) as d:
        G.write_instance_module(d, mol, base="AGCheck")
        cfg = os.path.join(d, "MC.cfg")
        with open(cfg, "w") as f:
            f.write("SPECIFICATION Spec\nCONSTANTS\n Elems <- MCElems\n Tok <- MCTok\nINVARIANT Theorems\nINVARIANT Export\n")
        r = run_tlc(d, "MC", cfg=cfg, workers=1, timeout=timeout, xmx="2g")
    graph = None
    for rec in r.printed:
        if "nnodes" in rec:
            graph = rec
    return r, graph


def impl_atom_graph(g, text, sz):
    obj = g.Molecule(text)
    sag = obj.gen_stochastic_atom_graph(expect_schulz_zimm_distribution=sz)
    Gr = sag.graph
    nodes = {int(n): (int(d["atomic_num"]), int(d["formal_charge"]), int(bool(d["aromatic"]))) for n, d in Gr.nodes(data=True)}
    edges = []
    for u, v, dat in Gr.edges(data=True):
        kinds = [(name, float(dat[k])) for k, name in KINDS if float(dat.get(k, 0)) != 0]
        if len(kinds) == 0:
            continue          # an edge whose weights are all zero does not exist for generation
        if len(kinds) > 1:
            edges.append((int(u) + 1, int(v) + 1, "+".join(k for k, _ in kinds), kinds[0][1], int(dat["bond_type"])))
        else:
            edges.append((int(u) + 1, int(v) + 1, kinds[0][0], kinds[0][1], int(dat["bond_type"])))
    return nodes, edges


def where(mol, node):
    """(element index, role, token text) of a 1-based node"""
    k = 0
    for ei, e in enumerate(mol.elems, 1):
        toks = [(e, "tok")] if isinstance(e, Token) else [(t, "rep") for t in e.rep] + [(t, "end") for t in e.end]
        for t, role in toks:
            n = len(t.chem()["atoms"])
            if k < node <= k + n:
                return ei, role, t
            k += n
    return 0, "?", None


def cause(mol, u, v, kind):
    eu, ru, tu = where(mol, u)
    ev, rv, tv = where(mol, v)
    listed = tu is not None and any(d.tr is not None for d in tu.descs)
    # the known defect concerns TERMINATION edges out of a listed descriptor (and listed end groups reached by stochastic edges);
    # listed weights between repeat units are compared exactly
    if listed and (kind in ("termination", "stochastic+termination") or (kind == "stochastic" and rv == "end")):
        return f"listed-source:{ru}->{rv}"
    return f"{ru}->{rv}" + ("" if eu == ev else ":next-element")


def listed_entry(mol, e):
    """for an edge of the specification out of a listed descriptor: 'entry-positive' / 'entry-zero' - the listed weight towards the target descriptor"""
    toks = mol.tokens()
    try:
        st, sd = e["src"]
        dt, dd = e["dst"]
        src = toks[st - 1].descs[sd - 1]
        if src.tr is None:
            return ""
        for el in mol.elems:
            if isinstance(el, Sto) and any(t is toks[st - 1] for t in el.rep + el.end):
                alld = [(t, k) for t in el.rep + el.end for k in range(len(t.descs))]
                j = [i for i, (t, k) in enumerate(alld) if t is toks[dt - 1] and k == dd - 1][0]
                return "entry-positive" if j < len(src.tr) and src.tr[j] > 0 else "entry-zero"
    except Exception:
        pass
    return ""


EXPLICIT_H = False


def _key(what, kind, c):
    return f"C17:{what}:{kind}:{c}"


def run(tier):
    g = common.import_repo()
    v = Verdict("C17", tier)
    rnd = random.Random(common.seed() + 17)
    mols = [m for m in I.core_instances() + I.extra_instances() + I.chem_instances(tier) if not m.name.startswith(("neg-", "plain"))]
    mols += [I.random_instance(rnd, "small") for _ in range(20 if tier == "quick" else 200)]
    # graph-only shapes: end groups that carry several descriptors, followed by further end groups
    from .gast import M, S
    mols += [M(S("[]", ["[>]CC[<]"], ["[<]NCO[<]", "[<]Cl", "[<]CO", "[>]F"], "[]", I.g(50)), name="multi-descriptor-endgroup"),
             M("C[>]", S("[>]", ["[<]CC[>]", "[<]C(O[>2])C[>]"], ["[<2]N[<]", "[<]Cl", "[<2]CO"], "[<]", I.g(50)), "[<]OC", name="multi-descriptor-endgroup-2")]
    # the same molecules with Schulz-Zimm distributions (mn / mw node attributes)
    import copy
    szm = []
    for m in mols[:20]:
        m2 = copy.deepcopy(m)
        for e in m2.elems:
            if isinstance(e, Sto):
                from .gast import Dist
                e.dist = Dist("schulz_zimm", [1200.0, 1000.0])
        m2.name = m.name + "-sz"
        szm.append(m2)
    states = 0
    n_edges = n_nodes = 0
    samples = []
    results = G.parallel(lambda m: (m, spec_atom_graph(m)), mols + szm, workers=10)
    for m, (r, graph) in results:
        text = m.text()
        if not r.ok:
            inv = r.invariant_violated()
            if inv == "Theorems":
                v.violation(f"C17:model:theorems@{m.name}", f"specification: the atom graph of {text} violates its theorems\n{r.tail(12)}", {"instance": text})
                continue
            print(r.tail(30))
            raise MachineryError(f"TLC failed on {m.name}")
        if graph is None:
            raise MachineryError(f"no atom graph exported for {m.name}")
        states += r.distinct
        scale = weight_scale(m)
        global EXPLICIT_H
        # verified cause of a known defect: a multi-atom token with a hydrogen written explicitly inside it
        EXPLICIT_H = any(isinstance(x, str) and "[H]" in x and len(t.chem()["atoms"]) > 1 and x != "[H]" for t in m.tokens() for x in t.items)
        sz = m.name.endswith("-sz")
        try:
            nodes, edges = impl_atom_graph(g, text, sz)
        except Exception as exc:
            v.violation(f"C17:graph-raises:{type(exc).__name__}", f"gen_stochastic_atom_graph raises {type(exc).__name__}: {exc} on {text}", {"instance": text})
            continue
        # nodes
        want_nodes = {i + 1: tuple(a) for i, a in enumerate(graph["attrs"])}
        got_nodes = {n + 1: a for n, a in nodes.items()}
        n_nodes += len(want_nodes)
        if set(want_nodes) != set(got_nodes):
            v.violation("C17:node-set", f"{text}: {len(got_nodes)} nodes, one per atom of every token would be {len(want_nodes)}", {"instance": text})
        else:
            for n in want_nodes:
                if want_nodes[n] != got_nodes[n]:
                    v.violation("C17:node-attributes", f"{text}: node {n} has (Z, charge, aromatic) = {got_nodes[n]}, the token's atom is {want_nodes[n]}", {"instance": text})
                    break
        want, free, entry = {}, set(), {}
        for e in graph["edges"]:
            key = (e["u"], e["v"], e["kind"], e["ord"])
            if e["w"] == -1:
                free.add(key)
                # the listed weight towards this end group (several descriptor pairs may share the atoms: positive if any is)
                le = listed_entry(m, e)
                if entry.get(key) != "entry-positive":
                    entry[key] = le
                continue
            if e["kind"] != "static" and e["w"] == 0:
                continue
            want.setdefault(key, []).append(Fraction(e["w"], scale) if e["kind"] != "static" else Fraction(1))
        got = {}
        for (a, b, kind, w, o) in edges:
            got.setdefault((a, b, kind, o), []).append(w)
        n_edges += sum(len(x) for x in want.values())
        if len(samples) < 3 and len(want) > 10:
            samples.append({"instance": text, "nodes": len(want_nodes), "edges_in_model": sum(len(x) for x in want.values()),
                            "edges_in_implementation": sum(len(x) for x in got.values())})
        for key in sorted(set(want) | set(got) | free, key=str):
            a, b, kind, o = key
            c = cause(m, a, b, kind)
            ww = sorted(float(x) for x in want.get(key, []))
            gw = sorted(got.get(key, []))
            if key in free and key not in want:
                # a termination edge repeat unit -> end group out of a listed descriptor: it has to exist ("none of these is missing"),
                # its weight is not prescribed (capping uses the end groups' weights, a listed entry its own)
                if not gw:
                    v.violation(_key("missing-edge", kind, c + ":" + entry.get(key, "")), f"{text}: no {kind} edge {a}->{b} (order {o}) from a listed descriptor to a compatible end group "
                                f"({entry.get(key, '')}); edges between these atoms: {[k for k in got if k[0] == a and k[1] == b]}", {"instance": text})
                continue
            if not gw:
                alt = [k for k in got if k[0] == a and k[1] == b]
                v.violation(_key("missing-edge", kind, c), f"{text}: no {kind} edge {a}->{b} (order {o}, weights {ww}); edges between these atoms: {alt}", {"instance": text})
            elif not ww:
                v.violation(_key("extra-edge", kind, c), f"{text}: {kind} edge {a}->{b} order {o} weights {gw} joins no admissible pair of descriptors", {"instance": text})
            elif len(ww) != len(gw) or any(abs(x - y) > 1e-9 for x, y in zip(ww, gw)):
                v.violation(_key("wrong-weight", kind, c), f"{text}: {kind} edges {a}->{b} carry {gw}, expected {ww}", {"instance": text})
    # exporting the graph (core.stochastic_atom_graph_to_dot_string) is a read-only query: the graph object a user goes on with is the one that was built
    n_export = 0
    try:
        from gbigsmiles.core import stochastic_atom_graph_to_dot_string as to_dot
    except Exception:
        to_dot = None
    if to_dot is not None:
        for text in ("{[][$|0.125|]CC[$|0.004|],[$|3|]CC(C)[$|1.5|];[$][H],[$|0.375|]O[]}|schulz_zimm(1000, 900)|",
                     "C[>]{[>][<|0.333|]CC[>],[<]CO[>|0.015|];[<]F[<]}|schulz_zimm(500, 450)|[<]O"):
            try:
                sag = g.Molecule(text).gen_stochastic_atom_graph(expect_schulz_zimm_distribution=True)
                snap = lambda: sorted((int(a), int(b), sorted((k, float(x)) for k, x in d.items() if isinstance(x, (int, float)))) for a, b, d in sag.graph.edges(data=True))
                before = snap()
                to_dot(sag.graph) if "graph" in getattr(to_dot, "__code__", to_dot).co_varnames[:1] else to_dot(sag)
                after = snap()
                n_export += 1
                if before != after:
                    diff = [(x, y) for x, y in zip(before, after) if x != y][:2]
                    v.violation("C17:graph-changed-by-dot-export", f"{text}: after stochastic_atom_graph_to_dot_string the graph object carries other edge data, e.g. {diff}", {"instance": text})
            except Exception as exc:
                v.notes.append(f"dot export not exercised on {text}: {type(exc).__name__}: {exc}")
    v.coverage = {"dot_exports_checked_for_purity": n_export, "states": states, "transitions": states, "traces_validated_against_impl": len(results), "instances": len(results), "nodes_compared": n_nodes,
                  "edges_compared": n_edges, "model_theorems": ["NothingLeavesEndGroups", "StaticSymmetric"], "samples": samples}
    v.assumptions = ["non-static edges of weight zero are not edges (ignored on both sides)", "node numbering: element order, repeat units before end groups, atoms in written order"]
    return v.finish()
