"""Step-level conformance of graph_generate.AtomGraph.generate with spec/AtomGenMachine.tla (C18).

* export_graph: the stochastic atom graph the implementation was handed -> constants GN / GOut / NKeys
  (weights scaled to integers per kind, masses in 1e-4 Da, (Mw, Mn) pairs numbered).
* machine_tree: the implementation's choice tree (options below 1e-100 - the EPSILON the code adds to every
  weight - are not options of the machine and are not explored).
* validate_machine: TLC on AtomGenTrace (one state per tree node, clause diagnostics).
* model_check_graph: TLC on AtomGenMC (all options, target grid; C18 invariants, liveness).
"""
import json
import math
import os
from fractions import Fraction

from . import common
from .common import tla, run_tlc, MachineryError
from . import explore as X

KINDS = ["stochNode", "termEdge", "stochEdge", "transNode", "transEdge"]
CLASSES = ["forced", "uniform", "zero-next-to-nonzero", "unequal"]
MIN_P = 1e-100
MASS_UNIT = 10000      # 1e-4 Da


last_obs = None      # observation of the most recent replay (the molecule the code built), for the C18 clauses on observed molecules


class GraphNotExportable(Exception):
    pass


def _scale(values):
    """common integer scale of a list of non-negative floats -> (scale, ints)"""
    fr = [Fraction(str(float(v))).limit_denominator(10 ** 6) for v in values]
    den = 1
    for f in fr:
        den = den * f.denominator // math.gcd(den, f.denominator)
    ints = [int(f * den) for f in fr]
    if any(abs(float(f) - float(v)) > 1e-9 * max(1.0, abs(float(v))) for f, v in zip(fr, values)) or any(i >= 2 ** 24 for i in ints):
        raise GraphNotExportable("weights are not small rationals")
    return den, ints


def export_graph(gr, masses):
    """gr: networkx MultiDiGraph of StochasticAtomGraph; masses: atomic number -> Da."""
    nodes = list(gr.nodes)
    if nodes != list(range(len(nodes))):
        raise GraphNotExportable("nodes are not 0..n-1 in insertion order")
    keys = []
    GN = []
    for n in nodes:
        d = gr.nodes[n]
        k = (float(d.get("mw", 0.0)), float(d.get("mn", 0.0)))
        if k not in keys:
            keys.append(k)
        GN.append({"z": int(d["atomic_num"]), "q": int(d["formal_charge"]), "m": int(round(masses[int(d["atomic_num"])] * MASS_UNIT)),
                   "key": keys.index(k) + 1})
    raw = {}
    for kind in ("stochastic_weight", "termination_weight", "transition_weight"):
        vals = [float(d[kind]) for _, _, d in gr.edges(data=True)]
        if any(v < 0 for v in vals):
            raise GraphNotExportable("negative weight")
        raw[kind] = _scale(vals)[0] if vals else 1
    GOut = []
    for n in nodes:
        out = []
        for _, v, d in gr.out_edges(n, data=True):
            out.append({"v": int(v) + 1,
                        "sw": int(round(float(d["stochastic_weight"]) * raw["stochastic_weight"])),
                        "tw": int(round(float(d["termination_weight"]) * raw["termination_weight"])),
                        "rw": int(round(float(d["transition_weight"]) * raw["transition_weight"])),
                        "stat": 1 if d["static_weight"] != 0 else 0,
                        "ord": int(d["bond_type"])})
        GOut.append(out)
    return {"GN": GN, "GOut": GOut, "NKeys": len(keys), "keys": keys}


def target_units(x):
    """target (Da) -> integer t (1e-4 Da) with  M * 1e-4 < x  <=>  M < t  for integer M"""
    if x != x or x in (float("inf"), float("-inf")):
        return 2 ** 30 if x > 0 else -(2 ** 30)
    v = math.ceil(x * MASS_UNIT - 1e-7)
    return max(-(2 ** 30), min(2 ** 30, int(v)))


def near_boundary(x):
    y = x * MASS_UNIT
    return abs(y - round(y)) < 1e-5


def write_graph_module(d, gc, base, name="MC", extra_defs=""):
    with open(os.path.join(d, f"{name}.tla"), "w") as f:
        f.write(f"---- MODULE {name} ----\nEXTENDS {base}\n")
        f.write("MCGN == " + tla(gc["GN"]) + "\n")
        # a node without out-edges is an empty sequence
        f.write("MCGOut == <<" + ", ".join(tla(o) if o else "<<>>" for o in gc["GOut"]) + ">>\n")
        f.write(f"MCNKeys == {gc['NKeys']}\n")
        f.write(extra_defs)
        f.write("====\n")


def ag_project(ag):
    from rdkit import Chem
    gr = ag.graph
    nodes = [int(gr.nodes[n]["stochastic_node"]) + 1 for n in sorted(gr.nodes)]
    edges = [[int(a) + 1, int(b) + 1, int(d["bond_type"])] for a, b, d in gr.edges(data=True)]
    try:
        mol = ag.to_mol()
        smi = Chem.MolToSmiles(mol)
        frags = len(Chem.GetMolFrags(mol))
        sane = True
    except Exception as exc:
        smi, sane, frags = f"{type(exc).__name__}", False, 0
    return {"kind": "mol", "nodes": nodes, "edges": edges, "sane": sane, "smiles": smi, "fragments": frags}


def slim_tree(tree):
    slim = []
    amb = 0
    for n in tree.nodes:
        ev = n["ev"]
        if ev["kind"] == "choice":
            e2 = {"kind": "choice", "a": ev["a"], "p": ev["p"], "k": ev["k"]}
        elif ev["kind"] == "draw":
            e2 = {"kind": "draw", "t": target_units(ev["val"])}
            if near_boundary(ev["val"]):
                amb += 1
        else:
            e2 = {"kind": ev["kind"]}
        o = n["obs"]
        if o["kind"] == "mol":
            o2 = {"kind": "mol", "nodes": o["nodes"], "edges": o["edges"]}
        else:
            o2 = {"kind": o["kind"]}
        slim.append({"kids": n["kids"], "ev": e2, "obs": o2})
    return slim, amb


class MachineResult:
    def __init__(self):
        self.nodes = 0
        self.reached = 0
        self.diags = []
        self.leaves = []
        self.census = {}
        self.error = None
        self.tail = ""
        self.wall = 0
        self.ambiguous = 0


def validate_machine(gc, tree, tag="agm", timeout=600):
    res = MachineResult()
    res.nodes = len(tree.nodes)
    slim, res.ambiguous = slim_tree(tree)
    with common.Scratch(tag) as d:
        write_graph_module(d, gc, "AtomGenTrace")
        tf = os.path.join(d, "tree.json")
        with open(tf, "w") as f:
            json.dump(slim, f)
        cfg = os.path.join(d, "MC.cfg")
        with open(cfg, "w") as f:
            f.write("SPECIFICATION Spec\nCONSTANTS\n GN <- MCGN\n GOut <- MCGOut\n NKeys <- MCNKeys\n"
                    "INVARIANT Diagnose\nINVARIANT LeafSummary\nINVARIANT Census\nPOSTCONDITION Report\n")
        r = run_tlc(d, "MC", cfg=cfg, workers=1, env={"TRACE_FILE": tf}, timeout=timeout, xmx="2g")
    res.wall = r.wall
    if not r.ok:
        res.error = "tlc-failed"
        res.tail = r.tail(40)
        return res
    res.reached = r.distinct
    for rec in r.printed:
        if "census" in rec:
            c = rec["census"]
            for ki, k in enumerate(KINDS):
                for ci, cl in enumerate(CLASSES):
                    res.census[f"{k}/{cl}"] = c[4 * ki + ci]
            res.census["done"], res.census["error"], res.census["draw"] = c[20], c[21], c[22]
        elif "leaf" in rec:
            res.leaves.append(rec)
        elif "failed" in rec:
            res.diags.append(rec)
    return res


def model_check_graph(gc, targets, tag="agmc", workers=2, timeout=600, liveness=True, simulate=None):
    """targets: list (per key) of lists of targets in 1e-4 Da."""
    with common.Scratch(tag) as d:
        tg = "<<" + ", ".join("{" + ", ".join(tla(int(t)) for t in ts) + "}" for ts in targets) + ">>"
        write_graph_module(d, gc, "AtomGenMC", extra_defs=f"MCTargets == {tg}\n")
        cfg = os.path.join(d, "MC.cfg")
        with open(cfg, "w") as f:
            f.write("SPECIFICATION Spec\nCONSTANTS\n GN <- MCGN\n GOut <- MCGOut\n NKeys <- MCNKeys\n Targets <- MCTargets\n"
                    "INVARIANT IC18\nINVARIANT ILaw\nINVARIANT NoError\nPROPERTY GrowsOnly\nPROPERTY OneDrawPerKey\n")
            if not simulate:
                f.write("INVARIANT Census\nPOSTCONDITION Report\n")
            if liveness and not simulate:
                f.write("PROPERTY Termination\n")
        extra = ["-simulate", f"num={simulate[0]}", "-depth", str(simulate[1]), "-seed", str(common.seed() + 1)] if simulate else []
        # no -coverage: it switches TLC's caching of LET definitions off, which makes the recursive static-graph operators exponential
        r = run_tlc(d, "MC", cfg=cfg, workers=workers if simulate else 1, timeout=timeout, xmx="3g", coverage=False, extra=extra)
        if simulate:
            import re as _re
            r.ok = r.invariant_violated() is None and "Error:" not in r.out
            m_ = _re.search(r"(\d+) states checked", r.out)
            r.distinct = r.generated = int(m_.group(1)) if m_ else 0
    cov = {}
    for rec in r.printed:
        if "mccensus" in rec:
            cov = dict(zip(["stochNode", "termEdge", "stochEdge", "transNode", "transEdge", "draw", "done", "error"], rec["mccensus"]))
    return {"ok": r.ok, "states": r.generated, "distinct": r.distinct, "violated": r.invariant_violated(), "depth": r.depth,
            "wall": r.wall, "coverage": cov, "tail": r.tail(30)}


def export_behaviours(gc, targets, tag="agmch", timeout=600, simulate=None, max_atoms=None):
    """TLC on AtomGenMCH: every distinct terminal state (exhaustive, VIEW st) or the terminal state of every simulated
    behaviour, with the decisions that lead to it. Returns (behaviours, tlc result)."""
    with common.Scratch(tag) as d:
        tg = "<<" + ", ".join("{" + ", ".join(tla(int(t)) for t in ts) + "}" for ts in targets) + ">>"
        extra_defs = f"MCTargets == {tg}\n"
        if max_atoms:
            extra_defs += f"MCBound == Bound({int(max_atoms)})\n"
        write_graph_module(d, gc, "AtomGenMCH", extra_defs=extra_defs)
        cfg = os.path.join(d, "MC.cfg")
        with open(cfg, "w") as f:
            f.write("SPECIFICATION Spec\nCONSTANTS\n GN <- MCGN\n GOut <- MCGOut\n NKeys <- MCNKeys\n Targets <- MCTargets\n"
                    "INVARIANT Export\n")
            if not simulate:
                f.write("VIEW View\n")
            if max_atoms:
                f.write("CONSTRAINT MCBound\n")
        extra = ["-simulate", f"num={simulate[0]}", "-depth", str(simulate[1]), "-seed", str(common.seed() + 1)] if simulate else []
        r = run_tlc(d, "MC", cfg=cfg, workers=1, timeout=timeout, xmx="3g", extra=extra)
        if simulate:
            import re as _re
            r.ok = r.invariant_violated() is None and "Error:" not in r.out
            m_ = _re.search(r"(\d+) states checked", r.out)
            r.distinct = r.generated = int(m_.group(1)) if m_ else 0
    behs = [x for x in r.printed if "hist" in x]
    # simulation prints a terminal state once per behaviour that reaches it: keep distinct histories
    seen, out = set(), []
    for b in behs:
        key = json.dumps(b["hist"])
        if key not in seen:
            seen.add(key)
            out.append(b)
    return out, r


def replay_behaviour(obj, call, beh):
    """One behaviour of the specification stepped through the real code: scripted decisions, forced targets.
    Returns a list of mismatch strings (empty: the code produced exactly the machine's graph)."""
    from .rng import ScriptedRNG
    script = [int(h[1]) for h in beh["hist"] if h[0] == "c"]
    forced = [(int(h[1]) - 0.5) / MASS_UNIT for h in beh["hist"] if h[0] == "d"]
    global last_obs
    last_obs = None
    rng = ScriptedRNG(script)
    X.Tap.current = rng
    X.Tap.forced = list(forced)
    out = []
    try:
        ag = call(obj, rng)
        obs = ag_project(ag)
        left = len(X.Tap.forced)
    except Exception as exc:
        obs = {"kind": "error", "exc": type(exc).__name__, "msg": str(exc)[:160]}
        left = 0
    finally:
        X.Tap.current = None
        X.Tap.forced = None
    last_obs = obs
    nchoice = sum(1 for e in rng.events if e["kind"] == "choice")
    if obs["kind"] != "mol":
        if beh["pc"] == "done":
            out.append(f"code raises {obs.get('exc')}: {obs.get('msg')} where the machine completes")
        return out
    if beh["pc"] != "done":
        out.append("code returns a molecule where the machine refuses")
        return out
    if nchoice != len(script):
        out.append(f"code made {nchoice} decisions, the machine {len(script)}")
    if left:
        out.append(f"code drew {len(forced) - left} targets, the machine {len(forced)}")
    if obs["nodes"] != [int(x) for x in beh["nodes"]]:
        out.append("atoms differ")
    norm = lambda e: (min(int(e[0]), int(e[1])), max(int(e[0]), int(e[1])), int(e[2]))
    if sorted(norm(e) for e in obs["edges"]) != sorted(norm(e) for e in beh["edges"]):
        out.append("bonds differ")
    return out
