"""C10 - generation is a pure, reproducible function of string and supplied generator."""
import numpy as np

from . import common, history as H, explore as X
from .common import Verdict, MachineryError

STRINGS = [
    "CC{[$|1 3 0 0 0|] [$]CC[$], [$]C(F)C[$]; [$][H] [$]}|gauss(200, 20)|CC",
    "CC{[$][$]CC[$][$]}|gauss(150, 200)|CC",
    "{[][<]C([>|2|])C[>|0.5|], [<]CC[>]; [<][H], [>|3|]F []}|uniform(40, 120)|",
    "[H]{[>][<|0 0 0 1|]CC([>|0 0 1 0|])c1ccccc1, [<|0 1 0 0|]CC([>|1 0 0 0|])C(=O)OC [<]}|schulz_zimm(600, 500)|[H]",
    "OC{[>|2|][<]CC[>][<]}|poisson(80)|COC{[>][<]CO[>], [<]C(C)O[>|0.5|][<]}|log_normal(90, 1.1)|F",
    "N{[$][$|0 2 1|]CC[$]; [$]O[$]}|flory_schulz(0.3)|{[$][$]CS[$]; [$][H][]}|gauss(60, 30)|",
]
# several end groups that fit the same open descriptor (a later generation must not reuse what an earlier one attached)
STRINGS.insert(2, "CC{[$] [$]CC([$])C[$]; [$]O, [$]N, [$]F [$]}|gauss(120, 10)|Cl")
# transition lists on repeat units whose sums are not 1 (a graph build or a generation must not normalise them in place)
STRINGS.insert(2, "{[][<]CC[>|0 0 7 0 0 3|], [<]CO[>|2 0 0 0 1 0|]; [<]F, [>][H] []}|gauss(90, 15)|")
# listed transitions between two different repeat units, both entries of every list reachable: the molecule depends on every listed pick
# (a pick that does not come from the supplied generator shows at once)
STRINGS.insert(2, "[H]{[>] [<]CC[>|1 0 3 0|], [<]C(F)C[>|3 0 1 0|] [<]}|gauss(300, 20)|O")
# a system: the component of a single-molecule generation, and the whole ensemble, are functions of the supplied generator too
STRINGS.insert(3, "SYS:CCCO.|30%|CC{[$][$]CC[$][$]}|gauss(60, 10)|CO.|45%|c1ccccc1.|250|")
# one fragment in two spellings with the same element sequence but another atom order (the implicit descriptor sits on atom 0 of the suffix:
# the central carbon in one spelling, a methyl carbon in the other): what was generated from one must not decide what the other gives
STRINGS.insert(4, "F{[$][$]CC[$][$]}|uniform(20, 60)|C(C)(C)O")
STRINGS.insert(5, "F{[$][$]CC[$][$]}|uniform(20, 60)|CC(C)O")
# a second system whose specifiers re-use the number texts of the first one in the other kind (30 % there, 30 absolute here)
STRINGS.insert(4, "SYS:CCCO.|30|CCN.|45|c1ccccc1.|250%|".replace("250%", "25"))
# choices among candidates whose weights are all zero (uniform pick - from the supplied generator)
STRINGS.insert(5, "CC{[$][$|0|]CC[$|0|],[$|0|]C(F)C[$|0|][$]}|gauss(120, 10)|CO")


def choose_seeds(g, text):
    """seed 1: fixed; seed 2: one whose first drawn target is negative, if the distribution allows it"""
    X.Tap.install(g)
    m = g.Molecule(text)
    neg = None
    for s in range(0, 60):
        rng = X.RecordingRNG(s)
        X.Tap.current = rng
        try:
            m.generate(rng=rng)
        except Exception:
            pass
        X.Tap.current = None
        if any(e["kind"] == "draw" and e["val"] < 0 for e in rng.events):
            neg = s
            break
    return [3, neg if neg is not None else 11]


def run(tier):
    g = common.import_repo()
    v = Verdict("C10", tier)
    strings = STRINGS if tier == "thorough" else STRINGS[:13]
    # seeds are chosen with a RecordingRNG, but the replay uses numpy's default_rng: map through the drawn value
    seedmap = []
    for s in strings:
        seedmap.append(_seeds_default_rng(g, s))
    kinds = ["parse", "gen", "genglobal", "perturb", "observe", "stage", "atomgen"]
    depth = 3
    hs, r = H.enumerate_histories(2, len(strings), [1, 2], [], depth, kinds)
    if tier == "thorough":
        hs4, r4 = H.enumerate_histories(2, 2, [1, 2], [], 4, ["parse", "gen", "genglobal", "perturb", "observe", "stage"])
        # depth 4 on the first two strings only
        hs += hs4
        states = r.distinct + r4.distinct
        trans = r.generated + r4.generated
    else:
        states, trans = r.distinct, r.generated
    keys = sorted({(b["str"], b["op"], b["arg"]) for h in hs for b in h["base"] if b["op"] in ("gen", "observe", "stage", "atomgen")})
    base = H.baselines(strings, seedmap, keys)
    # the baseline itself must be reproducible (two pristine processes agree), else nothing can be compared
    base2 = H.baselines(strings, seedmap, keys[: min(len(keys), 12)])
    for k in base2:
        if base2[k] != base[k]:
            v.violation(f"C10:not-reproducible-across-processes:{k[1]}", f"string {strings[k[0] - 1]!r} op {k[1]} arg {k[2]}: two pristine processes observe {base[k]} and {base2[k]}",
                        {"string": strings[k[0] - 1], "op": k[1], "arg": k[2]})
    bad, n_obs = H.replay_all(strings, seedmap, hs, base)
    for b in bad:
        sid, op, arg = b["key"]
        ops = " ; ".join(f"{o['op']}({o['slot']},{o['arg']})" for o in b["history"])
        v.violation(f"C10:history-changes-observation:{op}:string{sid}",
                    f"history [{ops}] on strings {[s[:40] for s in strings]}: step {b['step']} ({op}, arg {arg}) observes {str(b['observed'])[:300]} "
                    f"but the pristine baseline is {str(b['baseline'])[:300]}", b)
    v.coverage = {"states": states, "transitions": trans, "traces_validated_against_impl": len(hs), "histories": len(hs), "depth": depth,
                  "observations_compared": n_obs, "baseline_observations": len(keys), "strings": strings, "seeds": seedmap,
                  "samples": [hs[i]["h"] for i in (0, len(hs) // 2, len(hs) - 1)]}
    v.assumptions = ["the baseline of every (string, operation, argument) is computed in a pristine interpreter (spawned process, one observation per process)",
                     "generation without a supplied generator (module generator) is not compared, it only perturbs the hidden state",
                     "histories are replayed one after another inside worker processes, so hidden state could also leak ACROSS histories - that would be reported too"]
    return v.finish()


def _seeds_default_rng(g, text):
    if text.startswith("SYS:"):
        return [3, 11]
    X.Tap.install(g)
    m = g.Molecule(text)
    neg = None

    class Probe:
        events = []
    for s in range(0, 80):
        probe = Probe()
        probe.events = []
        X.Tap.current = probe
        try:
            m.generate(rng=np.random.default_rng(s))
        except Exception:
            pass
        X.Tap.current = None
        if any(e["kind"] == "draw" and e["val"] < 0 for e in probe.events):
            neg = s
            break
    return [3, neg if neg is not None else 11]
