"""Random generators handed to the library: recording and scripted subclasses of numpy.random.Generator.

Every `choice` call is an event {kind:"choice", a:[...], p:[[num,den],...], k:position}; quantile-type calls
(uniform / standard_normal / poisson / random) are recorded as {kind:"q", fn, args, val}.  Probabilities are converted
to the unique fraction with denominator <= 10**5 within 1e-9; a value near none is recorded as [-1, 1] (no
specification law can explain it).
"""
from fractions import Fraction

import numpy as np

MAXDEN = 100000


def to_frac(x):
    x = float(x)
    if not (x == x) or x in (float("inf"), float("-inf")):
        return [-1, 1]
    f = Fraction(x).limit_denominator(MAXDEN)
    if abs(float(f) - x) > 1e-9:
        return [-1, 1]
    return [f.numerator, f.denominator]


class ScriptExhausted(Exception):
    pass


class OptionNotOffered(Exception):
    """a replayed script asks for an option the code does not offer at this decision"""


class BaseRNG(np.random.Generator):
    max_events = 4000

    def __init__(self, seed=0):
        super().__init__(np.random.PCG64(seed))
        self.events = []
        self.raw_p = []          # the probabilities of every choice as the floats handed in (events carry them as fractions)

    # ---- decision points ----
    def choice(self, a, size=None, replace=True, p=None, axis=0, shuffle=True):
        if size is not None:
            raise NotImplementedError("choice with size")
        if len(self.events) > self.max_events:
            raise ScriptExhausted("more than %d generator calls in one generation" % self.max_events)
        if isinstance(a, (int, np.integer)):
            arr = list(range(int(a)))
        else:
            arr = [int(x) for x in list(a)]
        if len(arr) == 0:
            # numpy's behaviour: an empty population is a ValueError (no decision is made: no event)
            raise ValueError("'a' cannot be empty unless no samples are taken")
        if p is None:
            pv = [1.0 / len(arr)] * len(arr)
        else:
            pv = [float(x) for x in np.asarray(p, dtype=float)]
        if len(pv) != len(arr):
            raise ValueError("'a' and 'p' must have same size")
        bad = any((x != x) or x < 0 for x in pv) or abs(sum(pv) - 1.0) > 1e-8
        if bad:
            raise ValueError("probabilities are not non-negative / do not sum to 1")
        ev = {"kind": "choice", "a": arr, "p": [to_frac(x) for x in pv], "k": -1}
        self.events.append(ev)
        self.raw_p.append(pv)
        k = self._pick(ev, pv)
        if not (0 <= int(k) < len(arr)):
            ev["k"] = int(k)
            raise OptionNotOffered(f"option {int(k)} of {len(arr)}")
        ev["k"] = int(k)
        return arr[k]

    def _pick(self, ev, pv):
        raise NotImplementedError

    # ---- quantile-type calls (used by scipy's rvs) ----
    def _q(self, fn, args, val):
        self.events.append({"kind": "q", "fn": fn, "args": [float(x) for x in args], "val": float(val)})
        return val


class RecordingRNG(BaseRNG):
    """Delegates to a seeded PCG64 and logs every call."""

    def _pick(self, ev, pv):
        u = super().random()
        acc = 0.0
        last = 0
        for i, x in enumerate(pv):
            if x > 0:
                acc += x
                last = i
                if u < acc:
                    return i
        return last

    def uniform(self, low=0.0, high=1.0, size=None):
        v = super().uniform(low, high, size)
        return self._q("uniform", (low, high), v) if np.ndim(v) == 0 else v

    def standard_normal(self, size=None, dtype=np.float64, out=None):
        v = super().standard_normal(size)
        return self._q("standard_normal", (), v) if np.ndim(v) == 0 else v

    def poisson(self, lam=1.0, size=None):
        v = super().poisson(lam, size)
        return self._q("poisson", (lam,), v) if np.ndim(v) == 0 else v

    def random(self, size=None, dtype=np.float64, out=None):
        v = super().random(size)
        return self._q("random", (), v) if np.ndim(v) == 0 else v


class ScriptedRNG(BaseRNG):
    """Answers from a script (list of positions for choices, values for quantile calls). Beyond the script
    the first option of positive probability is taken; the alternatives available at every point are
    recorded (ev["alts"]) so that the explorer can enumerate the whole tree."""

    def __init__(self, script=(), qgrid=None, qseq=None, min_p=0.0):
        super().__init__(0)
        self.min_p = min_p          # options at or below this probability are not alternatives (the code's EPSILON)
        self.script = list(script)
        self.pos = 0
        self.qgrid = qgrid or {}
        self.qseq = list(qseq) if qseq is not None else None     # values answered to quantile-type calls, in call order

    def _next(self, alts):
        if self.pos < len(self.script):
            v = self.script[self.pos]
        else:
            v = alts[0]
        self.pos += 1
        return v

    def _pick(self, ev, pv):
        alts = [i for i, x in enumerate(pv) if x > self.min_p]
        ev["alts"] = alts
        return self._next(alts)

    def _quant(self, fn, args, default):
        if self.qseq is not None:
            v = self.qseq.pop(0) if self.qseq else default
            if isinstance(v, dict):           # one answer per KIND of call: the same quantile whichever way the code asks for it
                v = v.get(fn, default)
            self.events.append({"kind": "q", "fn": fn, "args": [float(x) for x in args], "val": float(v), "alts": [v]})
            return v
        alts = list(self.qgrid.get(fn, [default]))
        v = self._next(alts)
        self.events.append({"kind": "q", "fn": fn, "args": [float(x) for x in args], "val": float(v), "alts": alts})
        return v

    def uniform(self, low=0.0, high=1.0, size=None):
        u = self._quant("uniform", (low, high), 0.5)
        return low + (high - low) * u

    def standard_normal(self, size=None, dtype=np.float64, out=None):
        return self._quant("standard_normal", (), 0.0)

    def poisson(self, lam=1.0, size=None):
        return int(self._quant("poisson", (lam,), int(lam)))

    def random(self, size=None, dtype=np.float64, out=None):
        return self._quant("random", (), 0.5)
