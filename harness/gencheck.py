"""Pipeline shared by the generation properties (C04-C08, C06): instance -> implementation choice tree ->
TLC trace-tree validation against spec/Generate.tla -> clause diagnostics mapped to properties; and
model checking of the instance with spec/GenerateMC.tla."""
import json
import os
import time
from concurrent.futures import ThreadPoolExecutor

from . import common
from .common import tla, run_tlc, MachineryError
from .gast import Mol, instance_constants, Sto
from . import explore as X

KINDS = ["startEnd", "handOver", "pickOpen", "pickPartner", "pickListed", "reserve", "capOpen", "capEnd"]
CLASSES = ["forced", "uniform", "zero-next-to-nonzero", "unequal"]

# clause -> properties whose statement it is a clause of
CLAUSE_PROPS = {
    "candidates": {"C08", "C04"},          # who may meet whom: compatibility filter / admissible partners
    "law": {"C08"},
    "zero-probability-option-taken": {"C08"},
    "option-not-offered": {"C08", "C04"},      # a behaviour of the specification takes an option the code does not offer: the candidates differ
    "bonds": {"C04", "C05"},
    "atoms": {"C05"},
    "hydrogens": {"C05"},
    "sanitisation": {"C05"},
    "mass": {"C05"},
    "open": {"C06", "C04"},
    "fully-generated-flag": {"C06"},
    "error-not-expected": {"C06", "C15"},   # the implementation refuses what the model completes
    "return-not-expected": {"C06", "C07", "C04", "C15"},  # refined below by the model's pc / error reason
    "decision-not-expected": {"C07", "C06"},
    "draw-not-expected": {"C07", "C09"},
    "drawn-target-not-the-value-of-a-zero-width-law": {"C07", "C09", "C11"},   # "one target mass is drawn from its distribution"
    "call-after-end": {"C07", "C06"},
    "nontermination": {"C06"},
    "model-ElementOrder": {"C06"}, "model-NeighbourBonds": {"C06"}, "model-TerminalsRespected": {"C06"},
    "model-EndGroupsAreLeaves": {"C06"}, "model-StopRule": {"C07"}, "model-BondsCompatible": {"C04"}, "model-Tree": {"C05"},
    "foreign-generator": {"C10"},
    "nondeterministic-replay": {"C10"},
    "stray-generator-call": {"C10", "C09"},
}


def clause_props(clause, diag):
    name = clause.split(":")[0]
    props = set(CLAUSE_PROPS.get(name, set()))
    if name == "return-not-expected":
        # the implementation returned a molecule where the model is not finished or has refused
        err = diag.get("err", "")
        pc = clause.split(":")[1] if ":" in clause else ""
        if pc == "error":
            if "incompatible" in err:
                props = {"C04", "C15"}
            elif "prefix" in err:
                props = {"C15", "C06"}
            else:
                props = {"C15", "C06", "C08"}
        else:
            props = {"C07", "C06"}   # stopped growing / capping too early
    if name == "decision-not-expected":
        props = {"C07", "C06"}
    if name == "call-after-end":
        # the implementation goes on where the model has ended or refused
        err = diag.get("err", "")
        if "incompatible" in err:
            props = {"C04", "C15"}       # bonded what the rule excludes
        elif diag.get("pc") == "error":
            props = {"C15", "C06"}
        else:
            props = {"C07", "C06"}
    return props


def write_instance_module(d, mol: Mol, base="GenerateTrace", name="MC", extra_defs="", extra_cfg=""):
    Elems, Tok = instance_constants(mol)
    with open(os.path.join(d, f"{name}.tla"), "w") as f:
        f.write(f"---- MODULE {name} ----\nEXTENDS {base}\n")
        f.write("MCElems == " + tla(Elems) + "\n")
        f.write("MCTok == " + tla(Tok) + "\n")
        f.write(extra_defs)
        f.write("====\n")
    return Elems, Tok


class TraceResult:
    def __init__(self):
        self.nodes = 0
        self.reached = 0
        self.diags = []
        self.leaves = []
        self.census = {}
        self.tlc_wall = 0
        self.explore_wall = 0
        self.paths = 0
        self.truncated = False
        self.nondeterminism = []
        self.error = None
        self.states = 0

    @property
    def accepted(self):
        return self.error is None and not self.diags and self.reached == self.nodes and not self.nondeterminism


def validate_tree(mol: Mol, tree: X.Tree, tag="inst", timeout=600):
    """Run TLC on the recorded tree; returns a TraceResult."""
    res = TraceResult()
    res.nodes = len(tree.nodes)
    res.paths = tree.paths
    res.truncated = tree.truncated
    res.nondeterminism = tree.nondeterminism
    # harness-level clauses that TLC does not see
    for i, n in enumerate(tree.nodes):
        ev = n["ev"]
        if ev["kind"] == "draw" and not ev.get("same_rng", True):
            res.diags.append({"node": i + 1, "at": "event", "failed": ["foreign-generator"], "pc": "draw", "err": ""})
        if ev["kind"] == "stray":
            res.diags.append({"node": i + 1, "at": "event", "failed": ["stray-generator-call:" + ev["fn"]], "pc": "?", "err": ""})
    with common.Scratch(tag) as d:
        write_instance_module(d, mol)
        tf = os.path.join(d, "tree.json")
        # strip fields TLC does not need
        slim = []
        for n in tree.nodes:
            ev = n["ev"]
            if ev["kind"] == "choice":
                e2 = {"kind": "choice", "a": ev["a"], "p": ev["p"], "k": ev["k"]}
            elif ev["kind"] == "draw":
                e2 = {"kind": "draw", "t": ev["t"]}
            else:
                e2 = {"kind": ev["kind"]}
            o = n["obs"]
            if o["kind"] == "final":
                o2 = {k: o[k] for k in ("kind", "atoms", "bonds", "open", "full", "mass")}
            else:
                o2 = {"kind": o["kind"]}
            slim.append({"kids": n["kids"], "ev": e2, "obs": o2})
        with open(tf, "w") as f:
            json.dump(slim, f)
        cfg = os.path.join(d, "MC.cfg")
        with open(cfg, "w") as f:
            f.write("SPECIFICATION Spec\nCONSTANTS\n Elems <- MCElems\n Tok <- MCTok\n"
                    "INVARIANT Diagnose\nINVARIANT IModel\nINVARIANT LeafSummary\nINVARIANT Census\nPOSTCONDITION Report\n")
        r = run_tlc(d, "MC", cfg=cfg, workers=1, env={"TRACE_FILE": tf}, timeout=timeout, xmx="2g")
    res.tlc_wall = r.wall
    res.states = r.generated
    if not r.ok:
        inv = r.invariant_violated()
        if inv == "IModel":
            res.error = "model-invariant"
            res.diags.append({"node": -1, "at": "model", "failed": ["model-invariant"], "pc": "", "err": r.tail(25)})
        else:
            res.error = "tlc-failed"
            res.tlc_tail = r.tail(40)
            return res
    res.reached = r.distinct
    for rec in r.printed:
        if "census" in rec:
            c = rec["census"]
            for ki, k in enumerate(KINDS):
                for ci, cl in enumerate(CLASSES):
                    res.census[f"{k}/{cl}"] = c[4 * ki + ci]
            res.census["done"] = c[32]
            res.census["error"] = c[33]
            res.census["draw"] = c[34]
        elif "leaf" in rec:
            res.leaves.append(rec)
        elif "failed" in rec:
            res.diags.append(rec)
    return res


def stagewise(obj, rng):
    """Public-API use that builds a molecule element by element, reading the intermediate results (C05 / C10)."""
    mg = None
    for el in obj.elements:
        mg = el.generate(mg, rng)
        _ = (mg.weight, mg.fully_generated)
    return mg


def explore_and_validate(mol: Mol, g, max_nodes=6000, max_seconds=60, qgrid=None, tag="inst", parse_text=None, call=None, entry="Molecule"):
    text = parse_text or mol.text()
    t0 = time.time()
    try:
        # entry points: Molecule(text), or - for a molecule that is one stochastic object - Stochastic(text, 0) as in the README
        obj = g.Molecule(text) if entry == "Molecule" else g.Stochastic(text, 0)
    except Exception as exc:
        r = TraceResult()
        r.error = "parse-failed"
        r.tlc_tail = f"{type(exc).__name__}: {exc}"
        return r, None
    X.Tap.install(g)
    tree = X.explore(obj, max_nodes=max_nodes, max_seconds=max_seconds, qgrid=qgrid, call=call)
    ew = time.time() - t0
    res = validate_tree(mol, tree, tag=tag)
    res.explore_wall = ew
    return res, tree


def validate_random_runs(mol: Mol, g, seeds, tag="rand", parse_text=None):
    """Recorded random-stream generations of one instance, merged into one tree (shared prefixes)."""
    text = parse_text or mol.text()
    obj = g.Molecule(text)
    X.Tap.install(g)
    tree = X.Tree()
    t0 = time.time()
    for s in seeds:
        steps, obs = X.record_random(obj, s)
        tree.add_run(steps, obs)
    ew = time.time() - t0
    res = validate_tree(mol, tree, tag=tag)
    res.explore_wall = ew
    return res, tree


# --------------------------------------------------------------------------------------------
# specification -> code: behaviours generated by TLC stepped through the real code
# --------------------------------------------------------------------------------------------
def export_behaviours(mol: Mol, targets, tag="mch", timeout=300, simulate=None, max_res=None):
    """TLC on GenerateMCH: the decision history of every distinct terminal state (exhaustive, VIEW) or of every simulated behaviour."""
    import re as _re
    with common.Scratch(tag) as d:
        n = len(mol.elems)
        tg = "<<" + ", ".join("{" + ", ".join(tla(int(t)) for t in targets.get(i, [0])) + "}" for i in range(1, n + 1)) + ">>"
        extra_defs = f"MCTargets == {tg}\n"
        if max_res:
            extra_defs += f"MCBound == Bound({int(max_res)})\n"
        write_instance_module(d, mol, base="GenerateMCH", extra_defs=extra_defs)
        cfg = os.path.join(d, "MC.cfg")
        with open(cfg, "w") as f:
            f.write("SPECIFICATION Spec\nCONSTANTS\n Elems <- MCElems\n Tok <- MCTok\n Targets <- MCTargets\nINVARIANT Export\n")
            if not simulate:
                f.write("VIEW View\n")
            if max_res:
                f.write("CONSTRAINT MCBound\n")
        extra = ["-simulate", f"num={simulate[0]}", "-depth", str(simulate[1]), "-seed", str(common.seed() + 3)] if simulate else []
        r = run_tlc(d, "MC", cfg=cfg, workers=1, timeout=timeout, xmx="3g", extra=extra)
        if simulate:
            r.ok = r.invariant_violated() is None and "Error:" not in r.out
            m_ = _re.search(r"(\d+) states checked", r.out)
            r.distinct = r.generated = int(m_.group(1)) if m_ else 0
    seen, out = set(), []
    for b in r.printed:
        if "hist" in b:
            key = json.dumps(b["hist"])
            if key not in seen:
                seen.add(key)
                out.append(b)
    return out, r


def replay_behaviours(mol: Mol, g, behs, tag="replay", parse_text=None):
    """Every behaviour: scripted decisions, forced targets -> what the code did, merged into one tree, judged by GenerateTrace."""
    text = parse_text or mol.text()
    obj = g.Molecule(text)
    X.Tap.install(g)
    tree = X.Tree()
    t0 = time.time()
    for b in behs:
        script = [int(h[1]) for h in b["hist"] if h[0] == "c"]
        forced = [(int(h[1]) + 0.5) / 1000.0 for h in b["hist"] if h[0] == "d"]
        steps, obs = X.run_scripted(obj, script, forced=forced)
        # a forced draw consumes no value of the script: the target itself tells two runs apart
        steps = [(ev, used if used or ev["kind"] != "draw" else [("t", ev["t"])], alts) for ev, used, alts in steps]
        tree.add_run(steps, obs)
    ew = time.time() - t0
    res = validate_tree(mol, tree, tag=tag)
    res.explore_wall = ew
    return res, tree


# --------------------------------------------------------------------------------------------
# model checking of an instance (design level)
# --------------------------------------------------------------------------------------------
def model_check(mol: Mol, targets, invariants, liveness=True, tag="mc", workers=2, timeout=600, expect_error=False, simulate=None, refine=False):
    """targets: {element index (1-based): [mDa,...]}. Returns dict(ok, states, distinct, violated, outcomes)."""
    with common.Scratch(tag) as d:
        n = len(mol.elems)
        tg = "<<" + ", ".join("{" + ", ".join(tla(int(t)) for t in targets.get(i, [0])) + "}" for i in range(1, n + 1)) + ">>"
        # refine: also check that the machine implements the abstract accumulation machine FirstCrossing (C07)
        write_instance_module(d, mol, base="GenerateRefinesFC" if refine else "GenerateMC", extra_defs=f"MCTargets == {tg}\n")
        cfg = os.path.join(d, "MC.cfg")
        with open(cfg, "w") as f:
            f.write("SPECIFICATION Spec\nCONSTANTS\n Elems <- MCElems\n Tok <- MCTok\n Targets <- MCTargets\n")
            for inv in invariants:
                f.write(f"INVARIANT {inv}\n")
            f.write("PROPERTY AttachSound\n")
            if refine:
                f.write("PROPERTY ImplementsFirstCrossing\nINVARIANT FCTheorem\n")
            if liveness:
                f.write("PROPERTY Termination\n")
        extra = ["-simulate", f"num={simulate[0]}", "-depth", str(simulate[1]), "-seed", str(common.seed() + 1)] if simulate else []
        r = run_tlc(d, "MC", cfg=cfg, workers=workers, timeout=timeout, xmx="3g", coverage=not simulate, extra=extra)
        if simulate:
            # simulation mode ends by reaching the number of behaviours: "ok" = no violation reported
            r.ok = r.invariant_violated() is None and "Error:" not in r.out
            import re as _re
            m_ = _re.search(r"(\d+) states checked", r.out)
            r.distinct = r.generated = int(m_.group(1)) if m_ else 0
    out = {"ok": r.ok, "states": r.generated, "distinct": r.distinct, "violated": r.invariant_violated(), "depth": r.depth,
           "wall": r.wall, "coverage": {k: v for k, v in r.coverage().items()
                                        if k in ("StartEnd", "HandOver", "PickOpen", "PickPartner", "PickListed", "Reserve",
                                                 "CapOpen", "CapEnd", "Draw")},
           "outcomes": r.printed, "tail": r.tail(30)}
    return out


def parallel(fn, items, workers=8):
    with ThreadPoolExecutor(max_workers=workers) as ex:
        return list(ex.map(fn, items))


def closability(mol: Mol, tag="types", timeout=300):
    """TLC on spec/GenerateTypes.tla: target-independent over-approximation. Returns (wellposed_for_all_targets, abstract error reasons, states)."""
    with common.Scratch(tag) as d:
        write_instance_module(d, mol, base="GenerateTypes")
        cfg = os.path.join(d, "MC.cfg")
        with open(cfg, "w") as f:
            f.write("SPECIFICATION Spec\nCONSTANTS\n Elems <- MCElems\n Tok <- MCTok\nINVARIANT ClosedWhenDone\nINVARIANT ExportErrors\n")
        r = run_tlc(d, "MC", cfg=cfg, workers=1, timeout=timeout, xmx="2g")
    if not r.ok and r.invariant_violated() != "ClosedWhenDone":
        raise MachineryError("TLC failed on GenerateTypes for " + mol.name + "\n" + r.tail(20))
    errs = sorted({x["abstract_error"] for x in r.printed if "abstract_error" in x})
    closed = r.ok
    return (not errs), errs, r.distinct, closed
