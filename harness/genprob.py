"""C19: the distribution over molecules of the generation machine, derived from the specification (spec/GenerateProb.tla).

TLC enumerates every behaviour of the machine for one representative target per interval of cumulative block masses and
exports each terminal state with its molecule and its history of law fractions; this module multiplies (exact fractions for
the choices, the declared law's interval probabilities for the draws) and sums per molecule."""
import math
import os
from fractions import Fraction

from . import common, refcdf as R
from .common import run_tlc, MachineryError, tla
from .gast import Mol, Token
from .gencheck import write_instance_module

ORD = {1: "SINGLE", 2: "DOUBLE", 3: "TRIPLE", 15: "AROMATIC"}


def smiles_of(atoms, bonds):
    """canonical SMILES (explicit hydrogen ATOMS kept) of an exported assembly: atoms [Z, charge, isotope, aromatic, Hs], bonds [i, j, ord]"""
    from rdkit import Chem
    rw = Chem.RWMol()
    for z, q, iso, aro, hs in atoms:
        a = Chem.Atom(int(z))
        a.SetFormalCharge(int(q))
        if iso:
            a.SetIsotope(int(iso))
        a.SetNoImplicit(True)
        a.SetNumExplicitHs(max(0, int(hs)))
        if aro:
            a.SetIsAromatic(True)
        rw.AddAtom(a)
    for i, j, o in bonds:
        rw.AddBond(int(i) - 1, int(j) - 1, getattr(Chem.BondType, ORD[int(o)]))
    m = rw.GetMol()
    Chem.SanitizeMol(m)
    return Chem.MolToSmiles(m), m


def interval_prob(ref, m_da, n, lower_tail=True):
    """probability that the drawn target makes the block stop after exactly n units of mass m_da (C07: the first unit always;
    growth stops right after the first unit that makes the added mass exceed the target).  lower_tail=False leaves the law's mass
    at or below zero out of the one-unit interval (a variant used only to recognise a known defect by its cause)."""
    def F(x):
        return ref.cdf(math.floor(x + 1e-9) if ref.discrete else x)
    hi = F(n * m_da)
    lo = F((n - 1) * m_da) if n > 1 else (0.0 if lower_tail else F(0.0))
    return hi - lo


def distribution(leaves, blocks, lower_tail=True):
    dist = {}
    for smi, p, units in leaves:
        q = 1.0
        for (ei, m_da, ref), n in zip(blocks, units):
            q *= interval_prob(ref, m_da, n, lower_tail)
        dist[smi] = dist.get(smi, 0.0) + float(p) * q
    return dist


def machine_distribution(mol: Mol, nmax, tag="prob", timeout=600):
    """mol: every stochastic object has ONE repeat unit (C19's scope).  nmax: representatives for 1..nmax units per block.
    Returns (dist: smiles -> probability, covered: total probability covered, info)"""
    blocks = []      # (element index (1-based), unit mass Da, reference law)
    targets = {}
    for i, e in enumerate(mol.elems, 1):
        if isinstance(e, Token):
            continue
        if len(e.rep) != 1:
            raise MachineryError("machine_distribution: one repeat unit per object")
        m_mda = e.rep[0].chem()["mass"]
        ref = R.law(e.dist.fam, [float(x) for x in e.dist.par])
        blocks.append((i, m_mda / 1000.0, ref))
        targets[i] = [int((n - 0.5) * m_mda) for n in range(1, nmax + 1)]
    with common.Scratch(tag) as d:
        n = len(mol.elems)
        tg = "<<" + ", ".join("{" + ", ".join(tla(int(t)) for t in targets.get(i, [0])) + "}" for i in range(1, n + 1)) + ">>"
        write_instance_module(d, mol, base="GenerateProb", extra_defs=f"MCTargets == {tg}\n")
        cfg = os.path.join(d, "MC.cfg")
        with open(cfg, "w") as f:
            f.write("SPECIFICATION PSpec\nCONSTANTS\n Elems <- MCElems\n Tok <- MCTok\n Targets <- MCTargets\n"
                    "INVARIANT HistSane\nINVARIANT IStop\nINVARIANT IBonds\nINVARIANT ExportTerminalP\n")
        r = run_tlc(d, "MC", cfg=cfg, workers=1, timeout=timeout, xmx="3g")
    if not r.ok:
        print(r.tail(30))
        raise MachineryError(f"TLC failed on GenerateProb for {mol.name}")
    leaves = []
    errors = 0
    mols = {}
    for x in r.printed:
        if "hist" not in x:
            continue
        if x["pc"] != "done":
            errors += 1
            continue
        p = Fraction(1)
        for num, den in x["hist"]:
            p *= Fraction(int(num), int(den))
        if len(x["units"]) != len(blocks) or len(x["drawn"]) != len(blocks):
            raise MachineryError("block bookkeeping of the export does not match the instance")
        for (ei, m_da, ref), units, t in zip(blocks, x["units"], x["drawn"]):
            # the representative must have produced the unit count it stands for
            want = targets[ei].index(int(t)) + 1
            if int(units) != want:
                raise MachineryError(f"{mol.name}: representative target {t} gave {units} units, expected {want}")
        smi, rm = smiles_of(x["atoms"], x["bonds"])
        leaves.append((smi, p, tuple(int(u) for u in x["units"])))
        mols[smi] = (tuple(int(u) for u in x["units"]), int(x["open"]))
    dist = distribution(leaves, blocks)
    covered = 1.0
    for ei, m_da, ref in blocks:
        covered *= ref.cdf(math.floor(nmax * m_da + 1e-9) if ref.discrete else nmax * m_da)
    return dist, covered, {"states": r.distinct, "behaviours": sum(1 for x in r.printed if "hist" in x), "error_behaviours": errors, "mols": mols,
                           "leaves": leaves, "blocks": blocks}
