"""C02 - parsing recovers exactly the structure the notation denotes."""
import random
import re

from . import common, tokens as TK, instances as I
from .common import Verdict, MachineryError
from .gast import Token, Desc, Sto, Mol, frac, Dist

ORD_NAME = {1: "SINGLE", 2: "DOUBLE", 3: "TRIPLE", 15: "ONEANDAHALF"}
RD_INT = {0: "UNSPECIFIED", 1: "SINGLE", 2: "DOUBLE", 3: "TRIPLE", 4: "QUADRUPLE", 7: "ONEANDAHALF", 12: "AROMATIC"}


def desc_fields(bd):
    tr = None if bd.transitions is None else [float(x) for x in bd.transitions]
    return {"sym": bd.descriptor, "id": -1 if bd.descriptor_id == "" else int(bd.descriptor_id), "w": float(bd.weight), "tr": tr,
            "atom": getattr(bd, "atom_bonding_to", None), "ord": RD_INT.get(int(bd.bond_type), str(int(bd.bond_type)))}


def expected_desc(d: Desc, attach=None):
    e = {"sym": d.sym, "id": d.id, "w": float(d.weight()), "tr": None if d.tr is None else [float(x) for x in d.tr]}
    if attach is not None:
        e["atom"] = attach[0]
        e["ord"] = ORD_NAME[attach[1]]
    return e


def compare_desc(got, exp, what):
    bad = []
    for k, x in exp.items():
        y = got.get(k)
        if k == "w":
            ok = abs(y - x) <= 1e-12 * max(1, abs(x))
        elif k == "tr":
            ok = (x is None and y is None) or (x is not None and y is not None and len(x) == len(y) and all(abs(a - b) < 1e-12 for a, b in zip(x, y)))
        else:
            ok = (y == x)
        if not ok:
            bad.append((k, f"{what}: {k} is {y!r}, the notation denotes {x!r}"))
    return bad


def canon(smiles):
    from rdkit import Chem
    m = Chem.MolFromSmiles(smiles)
    return None if m is None else Chem.MolToSmiles(m)


def check_token(g, text, tast: Token, atoms_written, cls_of_desc):
    """compare the real SmilesToken(text) with the token AST; returns list of (key_suffix, message)."""
    out = []
    try:
        tok = g.SmilesToken(text, 0, 0)
    except Exception as exc:
        return [("rejected", f"SmilesToken({text!r}) raises {type(exc).__name__}: {str(exc)[:100]} - the text is well-formed")]
    ch = tast.chem()
    ds = tast.descs
    if len(tok.bond_descriptors) != len(ds):
        return [("descriptor-count", f"{text}: {len(tok.bond_descriptors)} descriptors parsed, {len(ds)} written")]
    for k, (bd, d) in enumerate(zip(tok.bond_descriptors, ds)):
        for fld, msg in compare_desc(desc_fields(bd), expected_desc(d, ch["attach"][k]), f"{text} descriptor {k + 1} ({d.text()})"):
            out.append((f"{fld}:{cls_of_desc[k] if k < len(cls_of_desc) else '?'}", msg))
    try:
        fr = canon(tok.generate_smiles_fragment())
    except Exception as exc:
        fr = f"raises {exc}"
    if fr != ch["frag"]:
        out.append(("fragment", f"{text}: fragment {tok.generate_smiles_fragment()!r} (canonical {fr}) differs from the atoms and bonds written ({ch['frag']})"))
    got_atoms = [a.generate_string(False) for a in tok.atoms]
    if atoms_written is not None and got_atoms != atoms_written:
        out.append(("atoms", f"{text}: atoms parsed {got_atoms} differ from atoms written {atoms_written}"))
    return out


def desc_classes(tok):
    """per descriptor: class of its position."""
    t = tok["text"]
    res = []
    for i, s in enumerate(t):
        if s != "D":
            continue
        if i == 0:
            res.append("leading" + ("+bond" if len(t) > 1 and t[1] in "=#" else ""))
            continue
        p = t[i - 1]
        bond = ""
        if p in "=#":
            bond = "bond+"
            i2 = i - 1
            p = t[i2 - 1] if i2 >= 1 else ""
            j = i2 - 1
        else:
            j = i - 1
        if p == "A":
            res.append(bond + "after-atom")
        elif p == "(":
            res.append(bond + "in-branch" + ("-after-branch" if j >= 1 and t[j - 1] == ")" else ""))
        elif p == ")":
            res.append(bond + "after-branch-close" + ("-of-descriptor" if j >= 1 and t[j - 1] == "D" else ""))
        elif p == "r":
            res.append(bond + "after-ring-close")
        else:
            res.append(bond + "after-" + p)
    return res


# --------------------------------------------------------------------------------------------
def sto_signature(g, sto):
    def tokd(t):
        return [desc_fields(b) for b in t.bond_descriptors]
    return {"left": desc_fields(sto.left_terminal), "right": desc_fields(sto.right_terminal),
            "rep": [tokd(t) for t in sto.repeat_tokens], "end": [tokd(t) for t in sto.end_tokens],
            "rep_frag": [canon(t.generate_smiles_fragment()) for t in sto.repeat_tokens],
            "end_frag": [canon(t.generate_smiles_fragment()) for t in sto.end_tokens],
            "dist": None if sto.distribution is None else str(sto.distribution)}


def dist_numbers(text):
    m = re.match(r"\|?\s*([a-z_]+)\s*\((.*)\)\s*\|?$", text.strip())
    if not m:
        return None
    return m.group(1), [float(x) for x in m.group(2).split(",")]


def check_molecule(g, mol: Mol, text):
    """element level: kinds and order, tokens, terminals, distribution, mixture."""
    out = []
    try:
        obj = g.Molecule(text)
    except Exception as exc:
        return [("molecule-rejected", f"Molecule({text!r}) raises {type(exc).__name__}: {str(exc)[:120]} - printed from a valid description")]
    els = obj.elements
    if len(els) != len(mol.elems):
        return [("element-count", f"{text}: {len(els)} elements parsed, {len(mol.elems)} written")]
    for i, (e, a) in enumerate(zip(els, mol.elems)):
        if isinstance(a, Token):
            if type(e).__name__ != "SmilesToken":
                out.append(("element-kind", f"{text}: element {i + 1} parsed as {type(e).__name__}, written as a token"))
                continue
            out += _cmp_token(e, a, f"{text} element {i + 1}")
        else:
            if type(e).__name__ != "Stochastic":
                out.append(("element-kind", f"{text}: element {i + 1} parsed as {type(e).__name__}, written as a stochastic object"))
                continue
            for nm, bd, d in (("left terminal", e.left_terminal, a.left), ("right terminal", e.right_terminal, a.right)):
                for fld, msg in compare_desc(desc_fields(bd), expected_desc(d), f"{text} element {i + 1} {nm}"):
                    out.append((f"terminal-{fld}", msg))
            if len(e.repeat_tokens) != len(a.rep) or len(e.end_tokens) != len(a.end):
                out.append(("unit-count", f"{text} element {i + 1}: {len(e.repeat_tokens)} repeat / {len(e.end_tokens)} end tokens parsed, "
                                          f"{len(a.rep)} / {len(a.end)} written"))
                continue
            for k, (t, ta) in enumerate(zip(e.repeat_tokens + e.end_tokens, a.rep + a.end)):
                out += _cmp_token(t, ta, f"{text} element {i + 1} unit {k + 1}")
            if a.dist is None:
                if e.distribution is not None:
                    out.append(("distribution", f"{text} element {i + 1}: a distribution was parsed, none written"))
            else:
                if e.distribution is None:
                    out.append(("distribution", f"{text} element {i + 1}: no distribution parsed, {a.dist.text()} written"))
                else:
                    got = dist_numbers(str(e.distribution))
                    exp = (a.dist.fam, [float(p) for p in a.dist.par])
                    if got is None or got[0] != exp[0] or len(got[1]) != len(exp[1]) or any(abs(x - y) > 1e-9 * max(1, abs(y)) for x, y in zip(got[1], exp[1])):
                        trunc = (exp[0] == "uniform" and got is not None and got[0] == "uniform" and len(got[1]) == 2
                                 and all(abs(x - int(y)) < 1e-12 for x, y in zip(got[1], exp[1])) and any(y != int(y) for y in exp[1]))
                        out.append(("distribution:uniform-parameters-truncated-to-integers" if trunc else "distribution", f"{text} element {i + 1}: distribution parsed as {e.distribution}, written {a.dist.text()}"))
    return out


def _cmp_token(t, ta: Token, what):
    # (a hydrogen written explicitly inside a multi-atom token used to be counted as an atom by the scanner: repaired in /repo, no special case any more)
    return _cmp_token0(t, ta, what)


def _cmp_token0(t, ta: Token, what):
    out = []
    ch = ta.chem()
    ds = ta.descs
    if len(t.bond_descriptors) != len(ds):
        return [("descriptor-count", f"{what}: {len(t.bond_descriptors)} descriptors parsed, {len(ds)} denoted")]
    for k, (bd, d) in enumerate(zip(t.bond_descriptors, ds)):
        for fld, msg in compare_desc(desc_fields(bd), expected_desc(d, ch["attach"][k]), f"{what} descriptor {k + 1}"):
            out.append((f"element-{fld}", msg))
    fr = canon(t.generate_smiles_fragment())
    if fr != ch["frag"]:
        out.append(("element-fragment", f"{what}: fragment {fr} differs from {ch['frag']}"))
    return out


def run(tier):
    g = common.import_repo()
    v = Verdict("C02", tier)
    rnd = random.Random(common.seed() + 202)
    L = 9 if tier == "quick" else 11
    K = 3 if tier == "quick" else 5
    toks, r = TK.enumerate_tokens(L)
    spec_mismatch = 0
    n_cmp = 0
    samples = []
    for tok in toks:
        classes = desc_classes(tok)
        # (a) the specification's meaning against the SMILES semantics of RDKit (descriptor = dummy atom)
        text0, t0, _ = TK.concretise(tok, rnd, plain=True)
        ch = t0.chem()
        spec_attach = [(d["atom"] - 1, d["ord"]) for d in tok["descs"]]
        spec_bonds = sorted((a - 1, b - 1, o) for a, b, o in tok["bonds"])
        if spec_attach != ch["attach"] or tok["natoms"] != len(ch["atoms"]) or spec_bonds != ch["ibonds"]:
            spec_mismatch += 1
            if spec_mismatch <= 3:
                print("SPEC-CHECK mismatch", text0, spec_attach, ch["attach"], spec_bonds, ch["ibonds"])
            continue
        # (b) the real parser, K concretisations
        for k in range(K):
            text, tast, atoms = TK.concretise(tok, rnd, plain=(k == 0))
            try:
                tast.chem()
            except Exception:
                # the random choice of elements gave a fragment RDKit cannot sanitise (e.g. an odd aromatic ring): use carbon
                text, tast, atoms = TK.concretise(tok, rnd, plain=True)
            n_cmp += 1
            if len(samples) < 4 and len(tok["descs"]) >= 2 and k == 1:
                samples.append({"symbols": "".join(tok["text"]), "text": text, "meaning": tok["descs"]})
            for key, msg in check_token(g, text, tast, atoms, classes):
                v.violation(f"C02:token:{key}", msg, {"text": text, "symbols": "".join(tok["text"])})
    if spec_mismatch:
        raise MachineryError(f"TokenScan's meaning differs from RDKit's dummy-atom semantics on {spec_mismatch} texts: the specification is wrong")
    # element level
    n_mol = 0
    mols = I.core_instances() + I.extra_instances() + I.chem_instances(tier)
    for k in range(40 if tier == "quick" else 400):
        mols.append(I.random_instance(rnd, "small"))
    from .gast import M, S
    mols.append(M("C[>]", S("[>]", ["[<]CC[>]"], [], "[<]", ("uniform", [12.7, 72.9])), "[<]O", name="uniform-non-integer"))
    mols.append(M("C[>]", S("[>]", ["[<]CC[>]"], [], "[<]", ("uniform", [20.0, 90.0])), "[<]O", name="uniform-float-syntax"))
    for m in mols:
        if any(d.implicit for t in m.tokens() for d in t.descs):
            continue   # automatic insertion is C01's / the molecule syntax's matter
        for style, ws in ((0, ""), (1, " "), (2, ""), (3, " "), (4, "")):        # style 4: every weight in exponent notation (2.000000e+00)
            text = m.text(style=style, ws=ws)
            n_mol += 1
            for key, msg in check_molecule(g, m, text):
                v.violation(f"C02:{key}", msg, {"text": text})
            if ws:
                # the same molecule closed by a mixture specifier, blanks in front of it: same elements, plus the mixture
                text2 = text + ws + ".|1000|"
                for key, msg in check_molecule(g, m, text2):
                    v.violation(f"C02:{key}", msg, {"text": text2})
                try:
                    mx = g.Molecule(text2).mixture
                    if mx is None or mx.absolute_mass is None or abs(mx.absolute_mass - 1000.0) > 1e-9:
                        v.violation("C02:mixture-value", f"Molecule({text2!r}): mixture read as {None if mx is None else (mx.absolute_mass, mx.relative_mass)}", {"text": text2})
                except Exception:
                    pass
    # mixture specifiers in every float syntax
    n_mix = 0
    for txt, kind, val in ((".|.5%|", "pct", 0.5), (".|5000|", "abs", 5000.0), (".|25%|", "pct", 25.0), (".|2.|", "abs", 2.0), (".|5e2|", "abs", 500.0),
                           (".| 10 %|", "pct", 10.0), (".|1234.|", "abs", 1234.0), (".|.25|", "abs", 0.25), (".|0.5%|", "pct", 0.5), (".|100%|", "pct", 100.0),
                           (".|1e-1%|", "pct", 0.1), (".|  750  |", "abs", 750.0), (".|2.5e+1%|", "pct", 25.0), (".|5e-1%|", "pct", 0.5),
                           (".|1E+3|", "abs", 1000.0), (".|6e4|", "abs", 60000.0), (".|1.5E1%|", "pct", 15.0)):
        n_mix += 1
        for where, make in (("Mixture", lambda t: g.Mixture(t)), ("Molecule", lambda t: g.Molecule("CCO" + t).mixture)):
            try:
                mx = make(txt)
                got = mx.relative_mass if kind == "pct" else mx.absolute_mass
                other = mx.absolute_mass if kind == "pct" else mx.relative_mass
                if got is None or abs(got - val) > 1e-12 * max(1, abs(val)) or other is not None:
                    v.violation("C02:mixture-value", f"{where}({txt!r}) denotes {val} {'%' if kind == 'pct' else 'absolute'} but is read as "
                                f"relative={mx.relative_mass} absolute={mx.absolute_mass}", {"text": txt})
            except Exception as exc:
                v.violation("C02:mixture-rejected", f"{where}({txt!r}) raises {type(exc).__name__}: {exc}", {"text": txt})
    # systems: every written percentage / mass is what the component carries (a written 0 % is a written value, not a missing one)
    for txt, want in (("CCO.|0%|CCC.|40%|CCCC", [(0.0, None), (40.0, None), (60.0, None)]),
                      ("CCO.|0%|CCC.|1000|", [(0.0, 0.0), (100.0, 1000.0)]),
                      ("CCO.|0%|CCC.|40%|CCCC.|600|", [(0.0, 0.0), (40.0, 400.0), (60.0, 600.0)]),
                      ("CCC.|250|CCO.|0.0%|CCCC.|75%|", [(25.0, 250.0), (0.0, 0.0), (75.0, 750.0)]),
                      ("CCO.|10%|CCC.|40%|CCCC", [(10.0, None), (40.0, None), (50.0, None)])):
        n_mix += 1
        try:
            so = g.System(txt)
            got = [(mo.mixture.relative_mass, mo.mixture.absolute_mass) for mo in so._molecules]
            ok_ = len(got) == len(want) and all((gr is not None and abs(gr - wr) < 1e-9) and (wa is None or (ga is not None and abs(ga - wa) < 1e-6))
                                                for (gr, ga), (wr, wa) in zip(got, want))
            if not ok_:
                v.violation("C02:system-mixture-values", f"System({txt!r}) denotes (percent, mass) {want} but the components carry {got}", {"text": txt})
        except Exception as exc:
            v.violation("C02:system-rejected", f"System({txt!r}) raises {type(exc).__name__}: {str(exc)[:120]}", {"text": txt})
    # distribution parameters in every float syntax (leading dot, trailing dot, exponents, signs, blanks), alone and inside a molecule
    n_dist = 0
    from gbigsmiles.distribution import get_distribution
    for txt, fam, want in (("flory_schulz(.05)", "flory_schulz", [0.05]), ("flory_schulz(5e-2)", "flory_schulz", [0.05]), ("flory_schulz( +.05 )", "flory_schulz", [0.05]),
                           ("gauss(500., .5)", "gauss", [500.0, 0.5]), ("gauss(5e2,5E-1)", "gauss", [500.0, 0.5]), ("gauss( 500 , 0.5 )", "gauss", [500.0, 0.5]),
                           ("log_normal(.5e4, 15e-1)", "log_normal", [5000.0, 1.5]), ("log_normal(5000., 1.5)", "log_normal", [5000.0, 1.5]),
                           ("schulz_zimm(.75e3, .5e3)", "schulz_zimm", [750.0, 500.0]), ("schulz_zimm(750., 500.)", "schulz_zimm", [750.0, 500.0]),
                           ("uniform(10., .2e3)", "uniform", [10.0, 200.0]), ("uniform(1e1, 2E2)", "uniform", [10.0, 200.0]),
                           ("poisson(6.5e1)", "poisson", [65.0]), ("poisson(65.)", "poisson", [65.0])):
        n_dist += 1
        for where, make in (("get_distribution", lambda t: get_distribution(t)),
                            ("Molecule", lambda t: g.Molecule("C[>]{[>][<]CC[>][<]}|" + t + "|[<]O").elements[1].distribution)):
            try:
                d = make(txt)
                m_ = re.match(r"\|?\s*([a-z_]+)\s*\((.*)\)\s*\|?$", str(d).strip())
                got = (m_.group(1), [float(x) for x in m_.group(2).split(",")]) if m_ else (str(d), [])
                if got[0] != fam or len(got[1]) != len(want) or any(abs(a - b) > 1e-9 * max(1.0, abs(b)) for a, b in zip(got[1], want)):
                    v.violation("C02:distribution-parameters", f"{where}({txt!r}) denotes {fam}{want} but is read as {got[0]}{got[1]}", {"text": txt})
            except Exception as exc:
                v.violation("C02:distribution-rejected", f"{where}({txt!r}) raises {type(exc).__name__}: {exc}", {"text": txt})
    # system texts: every sequence of pieces up to a length (spec/SystemScan.tla), the scanner theorem, replay into System / Molecule
    from . import sysscan
    sviol, scov = sysscan.run(5 if tier == "quick" else 6)
    for key, msg in sviol:
        if key.startswith("C02:"):
            v.violation(key, msg, {"text": msg.split("(", 1)[1].split(")", 1)[0] if "(" in msg else ""})
    v.coverage = {"states": r.distinct + scov["states"], "transitions": r.generated + scov["states"], "traces_validated_against_impl": n_cmp + n_mol + scov["piece_sequences"],
                  "system_texts": scov,
                  "token_texts_enumerated_by_TLC": len(toks), "max_symbols": L, "concretisations_per_text": K,
                  "specification_meaning_vs_RDKit_mismatches": spec_mismatch, "molecule_strings_compared": n_mol, "mixture_specifiers_compared": n_mix, "distribution_texts_compared": n_dist,
                  "samples": samples}
    v.assumptions = ["RDKit's SMILES semantics with the descriptor written as an isotope-labelled dummy atom is the reference meaning of a token",
                     "TokenScan's alphabet: atoms, branches, = and #, up to two ring bonds, descriptors; aromatic / stereo tokens only in the hand-written library"]
    return v.finish()
