"""Mixture object histories (spec/MixtureObject.tla): TLC enumerates every sequence of setter calls after construction over a small grid of values,
checks the invariants and exports each history with the state after every operation; the real Mixture object is stepped through each."""
import os
import warnings
from fractions import Fraction

from . import common
from .common import Scratch, run_tlc, MachineryError, tla


def enumerate_histories(percents, masses, depth, timeout=900):
    with Scratch("mixobj") as d:
        with open(os.path.join(d, "MC.tla"), "w") as f:
            f.write("---- MODULE MC ----\nEXTENDS MixtureObject\n")
            f.write("MCMasses == " + tla(set(masses)) + "\nMCPercents == " + tla(set(percents)) + "\n====\n")
        cfg = os.path.join(d, "MC.cfg")
        with open(cfg, "w") as f:
            f.write(f"SPECIFICATION Spec\nCONSTANTS\n Percents <- MCPercents\n Masses <- MCMasses\n D = {depth}\n"
                    "INVARIANT Linked\nINVARIANT Ranges\nINVARIANT WrittenPercentInRange\nPROPERTY AbsKeptBySetRel\nINVARIANT Export\n")
        r = run_tlc(d, "MC", cfg=cfg, workers=1, timeout=timeout, xmx="3g")
    if not r.ok:
        print(r.tail(25))
        raise MachineryError("MixtureObject: " + (f"invariant {r.invariant_violated()} violated" if r.invariant_violated() else "TLC failed"))
    return [x["h"] for x in r.printed if "h" in x], r


def _val(q):
    return None if q[1] == 0 else Fraction(q[0], q[1])


def _same(got, want):
    if want is None or got is None:
        return got is None and want is None
    return abs(float(got) - float(want)) <= 1e-9 * max(1.0, abs(float(want)))


def replay(g, histories):
    """returns (violations [(key, message)], divergences [message], operations compared).
    Violations are the clauses C12 / C15 state about a component's masses, judged on the real object:
      * after an accepted system_mass := m with all three values known, absolute = relative / 100 * system,
      * a negative mass and a percentage outside 0..100 are refused, nothing negative is ever stored.
    Any other difference from the specification's state or outcome (the specification transcribes what the setters do today,
    corner cases included) is a divergence: reported in the evidence, not an alarm."""
    out, div = [], []
    n = 0
    warnings.filterwarnings("ignore")
    for h in histories:
        first = h[0]
        text = f".|{first['arg']}|" if first["op"] == "abs" else f".|{first['arg']}%|"
        try:
            mx = g.Mixture(text)
        except Exception as exc:
            out.append(("C12:mixture-object:construction-raises", f"Mixture({text!r}) raises {type(exc).__name__}: {exc}"))
            continue
        trail = [text]
        for step in h[1:]:
            trail.append(f"{'system_mass' if step['op'] == 'setsys' else 'relative_mass'} := {step['arg']}")
            try:
                if step["op"] == "setsys":
                    mx.system_mass = step["arg"]
                else:
                    mx.relative_mass = step["arg"]
                outc = "ok"
            except Exception:
                outc = "raised"
            n += 1
            where = " ; ".join(trail)
            got = (mx.absolute_mass, mx.relative_mass, mx.system_mass)
            bad_arg = (step["op"] == "setsys" and step["arg"] < 0) or (step["op"] == "setrel" and not (0 <= step["arg"] <= 100))
            if bad_arg and outc == "ok":
                out.append((f"C12:mixture-object:{step['op']}:invalid-value-accepted", f"{where}: accepted"))
                break
            if outc == "ok":
                if any(x is not None and x < 0 for x in got):
                    out.append((f"C12:mixture-object:{step['op']}:negative-value-stored", f"{where}: (absolute, relative, system) = {got}"))
                    break
                if step["op"] == "setsys" and all(x is not None for x in got) and abs(got[0] - got[1] / 100.0 * got[2]) > 1e-9 * max(1.0, abs(got[0])):
                    out.append(("C12:mixture-object:setsys:not-linked", f"{where}: (absolute, relative, system) = {got}: absolute != relative / 100 * system"))
                    break
            if outc != step["out"]:
                if len(div) < 20:
                    div.append(f"{where}: the object {'accepts' if outc == 'ok' else 'raises'}, the specification says {step['out']}")
                break
            want = (_val(step["abs"]), _val(step["rel"]), _val(step["sys"]))
            if step["out"] == "ok" and not all(_same(a_, b_) for a_, b_ in zip(got, want)):
                if len(div) < 20:
                    div.append(f"{where}: (absolute, relative, system) = {got}, the specification has {tuple(None if w is None else float(w) for w in want)}")
                break
            if step["out"] == "raised":
                break      # what a refused call leaves behind is not specified
    return out, div, n
