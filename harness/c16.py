"""C16 - the reaction graph states the generator's probabilities, normalised at every node."""
import os
import random
from fractions import Fraction

from . import common, gencheck as G, instances as I
from .common import Verdict, MachineryError, run_tlc, tla, Scratch
from .gast import Mol, Sto, Token


def spec_graph(mol: Mol, targets, tag="rg", timeout=600):
    """TLC: GraphAgrees on every reachable state of the generation machine + the graph's own theorems + export of the graph."""
    with Scratch(tag) as d:
        n = len(mol.elems)
        tg = "<<" + ", ".join("{" + ", ".join(tla(int(t)) for t in targets.get(i, [0])) + "}" for i in range(1, n + 1)) + ">>"
        G.write_instance_module(d, mol, base="RGCheck", extra_defs=f"MCTargets == {tg}\n")
        cfg = os.path.join(d, "MC.cfg")
        with open(cfg, "w") as f:
            f.write("SPECIFICATION Spec\nCONSTANTS\n Elems <- MCElems\n Tok <- MCTok\n Targets <- MCTargets\n"
                    "INVARIANT IGraph\nINVARIANT Normalised\nINVARIANT WeightEdgesCompatible\nINVARIANT ExportGraph\nCONSTRAINT Bound\n")
        r = run_tlc(d, "MC", cfg=cfg, workers=1, timeout=timeout, xmx="3g")
    graph = None
    for rec in r.printed:
        if "nodes" in rec and "edges" in rec:
            graph = rec
    return r, graph


def impl_graph(g, mol: Mol, text):
    """the library's graph with nodes mapped to (token index, descriptor index) of the structured description"""
    obj = g.Molecule(text)
    # the graph is a function of the molecule: it is built three times on the same object and the LAST build is compared
    # (building a graph must not change what the next build states)
    obj.gen_reaction_graph()
    obj.gen_reaction_graph()
    Gr = obj.gen_reaction_graph()
    # identify nodes through the parsed object's own element list (the graph's nodes ARE these objects)
    tok_index = {}
    k = 0
    for e in obj._elements:
        toks = [e] if type(e).__name__ == "SmilesToken" else list(e.repeat_tokens) + list(e.end_tokens)
        for t in toks:
            k += 1
            tok_index[id(t)] = k
    desc_index = {}
    for e in obj._elements:
        toks = [e] if type(e).__name__ == "SmilesToken" else list(e.repeat_tokens) + list(e.end_tokens)
        for t in toks:
            for j, bd in enumerate(t.bond_descriptors, 1):
                desc_index[id(bd)] = (tok_index[id(t)], j)
    n_nodes = len(Gr.nodes)
    edges = []
    unknown = 0
    for a, b, dat in Gr.edges(data=True):
        if id(a) in tok_index:
            continue      # token -> descriptor ("atom") edges
        fa, fb = desc_index.get(id(a)), desc_index.get(id(b))
        if fa is None or fb is None:
            unknown += 1
            continue
        for kind in ("prob", "term_prob", "trans_prob"):
            if kind in dat:
                edges.append((fa, kind, fb, float(dat[kind])))
    # the mirrored molecule is a molecule too: its graph has one node per token and descriptor OF THE MIRROR (built after the original's)
    mirror_problem = None
    try:
        mir = obj.gen_mirror()
    except Exception:
        mir = None
    if mir is not None:
        try:
            gm = mir.gen_reaction_graph()
        except Exception:
            gm = None          # whether a mirrored text is a well-formed molecule is not C16's business
        if gm is not None:
            own = set()
            for e in mir._elements:
                toks = [e] if type(e).__name__ == "SmilesToken" else list(e.repeat_tokens) + list(e.end_tokens)
                for t in toks:
                    own.add(id(t))
                    own |= {id(bd) for bd in t.bond_descriptors}
            foreign = [n for n in gm.nodes if id(n) not in own]
            if foreign or len(gm.nodes) != len(own):
                mirror_problem = (f"graph of the mirrored molecule has {len(gm.nodes)} nodes, {len(foreign)} of them are not tokens / descriptors of the mirror "
                                  f"(which has {len(own)})")
    return n_nodes, edges, unknown, len(tok_index) + len(desc_index), mirror_problem


def classify(mol: Mol, frm, kind, flat, want):
    """cause class of a discrepancy at descriptor node `frm` for edge kind `kind` (stable keys; the known findings are matched on these)"""
    t = flat[frm[0] - 1][0]
    desc = t.descs[frm[1] - 1]
    ei = None
    for i, e in enumerate(mol.elems):
        toks = [e] if isinstance(e, Token) else e.rep + e.end
        if any(x is t for x in toks):
            el, ei = e, i
    nxt = mol.elems[ei + 1] if ei + 1 < len(mol.elems) else None
    # the candidates generation chooses among at this node (from the model's graph)
    cands = [flat[k[2][0] - 1][0].descs[k[2][1] - 1] for k in want if k[0] == frm and k[1] == kind]
    if kind == "trans_prob" and isinstance(nxt, Sto) and nxt.left.tr is not None:
        return "left-terminal-list-not-in-graph"
    if kind == "trans_prob" and t.chem()["attach"][frm[1] - 1][1] != 1:
        return "non-single-bond-hand-over-not-in-graph"
    if desc.tr is None and cands and all(c.weight() == 0 for c in cands):
        return "all-candidates-have-weight-zero"
    if kind == "trans_prob" and isinstance(nxt, Token) and len(nxt.descs) > 1:
        return "hand-over-to-token-with-several-descriptors"
    where = ("tok" if isinstance(el, Token) else "sto") + ("->" + ("tok" if isinstance(nxt, Token) else "sto") if kind == "trans_prob" and nxt is not None else "")
    return ("listed:" if desc.tr is not None else "plain:") + where


KNOWN_CAUSES = ("non-single-bond-hand-over-not-in-graph", "left-terminal-list-not-in-graph", "all-candidates-have-weight-zero", "hand-over-to-token-with-several-descriptors")


def _key(what, kind, cls):
    # discrepancies with a known, verified cause are keyed by the cause alone; everything else by what / kind / where
    return f"C16:{cls}" if cls in KNOWN_CAUSES else f"C16:{what}:{kind}:{cls}"


def run(tier):
    g = common.import_repo()
    v = Verdict("C16", tier)
    rnd = random.Random(common.seed() + 16)
    mols = [m for m in I.core_instances() + I.extra_instances() + I.chem_instances(tier) if not m.name.startswith(("neg-", "plain"))]
    mols += [I.random_instance(rnd, "small") for _ in range(20 if tier == "quick" else 150)]
    states = trans = 0
    n_edges = 0
    samples = []

    def one(m):
        K = 1
        targets = I._sto_targets(m, K)
        return m, spec_graph(m, targets)

    results = G.parallel(one, mols, workers=10)
    for m, (r, graph) in results:
        text = m.text()
        if not r.ok:
            inv = r.invariant_violated()
            if inv in ("IGraph", "Normalised", "WeightEdgesCompatible"):
                v.violation(f"C16:model:{inv}@{m.name}", f"specification: {inv} fails on {text}\n{r.tail(15)}", {"instance": text})
                continue
            print(r.tail(30))
            raise MachineryError(f"TLC failed on {m.name}")
        if graph is None:
            raise MachineryError(f"no graph exported for {m.name}")
        states += r.distinct
        trans += r.generated
        try:
            n_nodes, edges, unknown, n_expected_nodes, mirror_problem = impl_graph(g, m, text)
        except Exception as exc:
            v.violation(f"C16:graph-raises:{type(exc).__name__}@{m.name}", f"gen_reaction_graph() raises {type(exc).__name__}: {exc} on {text}", {"instance": text})
            continue
        flat = [(t, None) for t in m.tokens()]
        if mirror_problem:
            v.violation("C16:mirror-graph-nodes", f"{text}: {mirror_problem}", {"instance": text})
        if n_nodes != graph["nodes"]:
            v.violation("C16:node-count", f"{text}: {n_nodes} nodes, one per token and per descriptor would be {graph['nodes']}", {"instance": text})
        if unknown:
            v.violation("C16:edge-to-foreign-node", f"{text}: {unknown} edges touch nodes that are neither tokens nor descriptors of the molecule", {"instance": text})
        want = {}
        for e in graph["edges"]:
            want[(tuple(e["from"]), e["kind"], tuple(e["to"]))] = Fraction(e["p"][0], e["p"][1])
        got = {}
        for fa, kind, fb, p in edges:
            if p > 0:
                got[(fa, kind, fb)] = got.get((fa, kind, fb), 0.0) + p
        n_edges += len(want)
        if len(samples) < 4 and len(want) > 6:
            samples.append({"instance": text, "edges_in_model": len(want), "edges_in_implementation": len(got)})
        for key in sorted(set(want) | set(got)):
            w, x = want.get(key), got.get(key)
            frm, kind, to = key
            if w is None:
                cls = classify(m, frm, kind, flat, want)
                v.violation(_key("extra-edge", kind, cls), f"{text}: edge {frm} -{kind}={x:.4f}-> {to} is not a pick generation makes", {"instance": text})
            elif x is None:
                cls = classify(m, frm, kind, flat, want)
                v.violation(_key("missing-edge", kind, cls), f"{text}: generation picks {to} from {frm} with probability {w} ({kind}) but the graph has no such edge", {"instance": text})
            elif abs(float(w) - x) > 1e-9:
                cls = classify(m, frm, kind, flat, want)
                v.violation(_key("wrong-probability", kind, cls), f"{text}: edge {frm} -{kind}-> {to} carries {x:.6f}, generation picks it with {w}", {"instance": text})
        # normalisation of the implementation's graph at every descriptor node
        sums = {}
        for fa, kind, fb, p in edges:
            sums[(fa, kind)] = sums.get((fa, kind), 0.0) + p
        for (fa, kind), s in sums.items():
            if not (abs(s - 1) < 1e-6 or abs(s) < 1e-6):
                cls = classify(m, fa, kind, flat, want)
                v.violation(_key("not-normalised", kind, cls), f"{text}: {kind} out of descriptor {fa} sums to {s}", {"instance": text})
    # the graph of a mirrored molecule is a function of that molecule: it does not depend on whether the original's graph was asked for before
    def _summary(G_):
        lab = lambda n: n.generate_string(True) + "#" + str(getattr(n, "descriptor_num", ""))
        return sorted((lab(a), lab(b), sorted((k, round(float(x), 9)) for k, x in d.items() if isinstance(x, (int, float)))) for a, b, d in G_.edges(data=True))
    n_mirror = 0
    for m in mols[:40]:
        if len(m.elems) < 2:
            continue
        text = m.text()
        try:
            a = g.Molecule(text).gen_mirror()
            fresh = _summary(a.gen_reaction_graph())
            o = g.Molecule(text)
            o.gen_reaction_graph()
            later = _summary(o.gen_mirror().gen_reaction_graph())
        except Exception:
            continue          # whether a mirror has a graph at all is not C16's matter
        n_mirror += 1
        if fresh != later:
            v.violation("C16:mirror-graph-depends-on-an-earlier-graph-call", f"{text}: gen_mirror().gen_reaction_graph() differs when gen_reaction_graph() was called on the original first",
                        {"instance": text})
    # the mirror operation itself (spec/Mirror.tla; not a clause of C16: differences are divergences in the evidence)
    from . import mirror as MR
    mdiv, mcov = MR.run(g, mols)
    if mdiv:
        v.notes.append("gen_mirror differs from spec/Mirror.tla (not a clause of C16): " + "; ".join(mdiv[:5]))
    v.coverage = {"mirror_operation": mcov, "mirror_graphs_checked_for_history": n_mirror, "states": states, "transitions": trans, "traces_validated_against_impl": len(results), "instances": len(results),
                  "edges_compared": n_edges, "model_invariants": ["IGraph (law at every decision = out-edges of the chosen node)", "Normalised", "WeightEdgesCompatible"],
                  "samples": samples}
    v.assumptions = ["edges of probability zero are not edges (ignored on both sides)",
                     "graph nodes are identified through Molecule._elements (the graph's nodes are these objects)",
                     "listed transition weights appear as reaction ('prob') edges, also towards end groups"]
    return v.finish()
