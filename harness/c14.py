"""C14 - generated ensembles have the declared composition by mass: decided at the generator interface (the probability
vector of the component pick must be proportional to declared fraction / mean member mass), backed by generated masses."""
import random
from fractions import Fraction

import numpy as np

from . import common, ensemble as E, explore as X
from .common import Verdict, MachineryError
from .gast import M

KNOWN_KEY = "C14:pick-law-is-declared-mass-fraction-per-molecule"


def systems(tier):
    alk = lambda n: M("C" * n)
    out = [
        E.SystemSpec([(alk(1), 50), (alk(10), 50)], 100.0, "1:10 50/50"),
        E.SystemSpec([(alk(1), 90), (alk(10), 10)], 100.0, "1:10 90/10"),
        E.SystemSpec([(alk(2), 20), (alk(4), 30), (alk(40), 50)], 600.0, "2:4:40"),
        E.SystemSpec([(M("CCCO"), 20), (M("CC(C)O"), 30), (M("CCOC"), 50)], 100.0, "isomers 20/30/50"),
        E.SystemSpec([(M("CCCO"), 0), (M("CC(C)O"), 30), (M("CCOC"), 70)], 100.0, "isomers 0/30/70"),
        E.SystemSpec([(M("CCCO"), Fraction(1, 2)), (M("CC(C)O"), Fraction(75, 2)), (M("CCOC"), 62)], 100.0, "isomers 0.5/37.5/62"),
        E.SystemSpec([(M("CCCCO"), Fraction(5, 2)), (M("CCC(C)O"), Fraction(25, 2)), (M("CCOCC"), 60), (M("CC(C)(C)O"), 25)], 100.0, "isomers 2.5/12.5/60/25"),
        E.SystemSpec([(alk(1), 10), (alk(100), 90)], 2000.0, "1:100 10/90"),
    ]
    return out


class FracSpec(E.SystemSpec):
    """percentages may be fractions: fractions are scaled to integers for TLC"""

    numstyle = "plain"      # "exp": the same numbers in exponent notation (2.5e+01); the declared fractions are the numbers, however written

    def _num(self, x):
        if self.numstyle == "exp":
            t = f"{float(x):.6e}"
            if float(t) != float(x):
                raise MachineryError(f"{x} is not exact in exponent notation")
            return t
        return str(float(x))

    def text(self):
        out = ""
        for i, (m, p) in enumerate(self.comps):
            if i < len(self.comps) - 1:
                out += m.text() + f".|{self._num(p)}%|"
            else:
                out += m.text() + f".|{self._num(Fraction(p) * Fraction(repr(float(self.S))) / 100)}|"
        return out

    def constants(self):
        comps, fixed = super().constants()
        den = 1
        for _, p in self.comps:
            den = den * Fraction(p).denominator // __import__("math").gcd(den, Fraction(p).denominator)
        for c, (_, p) in zip(comps, self.comps):
            c["frac"] = int(Fraction(p) * den)
        return comps, fixed


def _is_pick(ev, n):
    """the component pick is a choice over range(n_components) (the first choice of an iteration)"""
    return ev["a"] == list(range(len(ev["a"]))) and len(ev["a"]) in (n, n - 1, n + 1)


def run(tier):
    g = common.import_repo()
    X.Tap.install(g)
    v = Verdict("C14", tier)
    tot_nodes = tot_paths = tot_states = 0
    samples = []
    picks = 0
    syslist = [(s0, "plain") for s0 in systems(tier)]
    syslist += [(s0, "exp") for s0 in systems(tier)[:2]]
    for spec0, numstyle in syslist:
        spec = FracSpec(spec0.comps, spec0.S, spec0.name + ("" if numstyle == "plain" else "-" + numstyle))
        spec.numstyle = numstyle
        text = spec.text()
        sysobj = g.System(text)
        if not sysobj.generable:
            raise MachineryError(f"System({text!r}) is not generable")
        for mode, call in (("iterate", E.iterate_call), ("single", E.single_call)):
            # the pick law does not depend on the history: a handful of recorded streams per system reaches every pick state that matters
            tree = X.Tree()
            for seed in range(6 if tier == "quick" else 40):
                rng = X.RecordingRNG(seed + 100 * common.seed())
                X.Tap.current = rng
                try:
                    call(sysobj, rng)
                    obs = {"kind": "stop"}
                except Exception as exc:
                    obs = {"kind": "error", "exc": type(exc).__name__}
                X.Tap.current = None
                tree.add_run(X.merge_events(rng.events), obs)
            res = E.validate(spec, tree, single=(mode == "single"), tag="c14")
            if res["error"]:
                print(res["error"])
                raise MachineryError(f"TLC failed on {text}")
            if not res["fixed"]:
                raise MachineryError("C14's exact decision needs components of fixed mass")
            tot_nodes += res["reached"]
            tot_paths += tree.paths
            tot_states += res["states"]
            for d in res["diags"]:
                f = set(d["failed"])
                node = tree.nodes[d["node"] - 1]
                ev = {k: node["ev"].get(k) for k in ("a", "p", "k")}
                if "pick-law-is-declared-fraction-law" in f:
                    picks += 1
                    v.violation(KNOWN_KEY, f"system {text} ({mode}): component pick with p={ev['p']} = declared mass fractions; for the mass shares to converge "
                                           f"to the declared fractions p has to be proportional to fraction / molecule mass", {"system": text})
                elif "pick-law-not-mass-share-law" in f or "pick-candidates" in f or "pick-zero-probability-option-taken" in f:
                    v.violation(f"C14:pick-law@{spec.name}", f"system {text} ({mode}): component pick a={ev['a']} p={ev['p']} is neither the mass-share law nor "
                                                             f"the declared fractions: {sorted(f)}", {"system": text})
            if len(samples) < 4:
                samples.append({"system": text, "mode": mode, "first_pick": next((n["ev"] for n in tree.nodes if n["ev"]["kind"] == "choice"), None)})
        # backstop from generated masses where all components have the same molecule mass (there the declared-fraction law IS the share law)
        comps, _ = spec.constants()
        if len({c["mred"] for c in comps}) == 1 and tier == "thorough":
            big = g.System(text.rsplit(".|", 1)[0] + ".|" + str(float(Fraction(spec.comps[-1][1]) * 4000)) + "|")
            mass = {}
            rng = np.random.default_rng(4242 + common.seed())
            n = 0
            for mg in type(big).generator.fget(big, rng):
                mass[mg.smiles] = mass.get(mg.smiles, 0.0) + mg.weight
                n += 1
            tot = sum(mass.values())
            for (m, p), c in zip(spec.comps, comps):
                from rdkit import Chem
                smi = Chem.MolToSmiles(Chem.MolFromSmiles(m.text()))
                share = mass.get(smi, 0.0) / tot
                f = float(Fraction(p)) / 100
                sd = (f * (1 - f) / n) ** 0.5
                if abs(share - f) > 6.5 * sd + 1e-9:      # false-alarm bound below 1e-9 per comparison
                    v.violation(f"C14:mass-share@{spec.name}", f"system {text}: component {m.text()} has mass share {share:.4f} over {n} molecules, declared {f}", {"system": text})
    # ---- systems with polymer components (mean member mass only known by sampling): the pick vector must be the declared fractions
    #      (known finding) or, within sampling error, the mass-share law - never anything else
    from .gast import S
    pe = lambda tgt: M("C[>]", S("[>]", ["[<]CC[>]"], [], "[<]", ("gauss", [tgt, 10])), "[<]C")
    poly_systems = [
        E.SystemSpec([(pe(150), 70), (pe(600), 10), (M("OCCO"), 20)], 3000.0, "two-grades-of-one-polymer"),
        E.SystemSpec([(M("C1CCOC1"), 90), (pe(300), 10)], 2000.0, "solvent-polymer"),
    ]
    n_poly = 0
    for spec0 in poly_systems:
        spec = FracSpec(spec0.comps, spec0.S, spec0.name)
        text = spec.text()
        sysobj = g.System(text)
        fr = [float(Fraction(p)) for _, p in spec.comps]
        declared = [x / sum(fr) for x in fr]
        # mean member masses by sampling each component on its own
        means = []
        for m, _ in spec.comps:
            mo = g.Molecule(m.text())
            ws = [mo.generate(rng=np.random.default_rng(1000 + i)).weight for i in range(60)]
            means.append(sum(ws) / len(ws))
        share = [f / mm for f, mm in zip(fr, means)]
        share = [x / sum(share) for x in share]
        for mode, call in (("iterate", E.iterate_call), ("single", E.single_call)):
            rng = X.RecordingRNG(7 + common.seed())
            X.Tap.current = rng
            try:
                call(sysobj, rng)
            except Exception:
                pass
            X.Tap.current = None
            for ev in rng.events:
                if ev["kind"] == "choice" and len(ev["a"]) <= len(fr) and max(ev["a"], default=99) < len(fr) and (len(ev["p"]) == len(fr) or ev["a"] == list(range(len(ev["a"])))) and ev["a"][:1] == [0] and len(ev["p"]) > 1 and _is_pick(ev, len(fr)):
                    n_poly += 1
                    p = [n / d if d > 0 else -1 for n, d in ev["p"]]
                    if len(p) == len(fr) and all(abs(a - b) < 1e-9 for a, b in zip(p, declared)):
                        v.violation(KNOWN_KEY, f"system {text} ({mode}): component pick with p={p} = declared mass fractions", {"system": text})
                    elif len(p) == len(fr) and all(abs(a - b) <= 0.08 * b + 1e-3 for a, b in zip(p, share)):
                        pass      # the mass-share law, within the sampling error of the mean member masses
                    else:
                        v.violation(f"C14:pick-law@{spec.name}", f"system {text} ({mode}): component pick a={ev['a']} p={p} is neither the declared fractions {declared} "
                                                                 f"nor the mass-share law (about {[round(x, 4) for x in share]})", {"system": text})
                    break
    # ---- systems whose mass the CALLER supplies (System(text, mass)): whatever is accepted must pick every component with the fraction its
    #      WRITTEN value declares (percentage / 100, or absolute mass / supplied system mass). Isomers: the declared-fraction law is the share law.
    n_sup = 0
    iso = ["CCCO", "CC(C)O", "CCOC"]
    supplied = [
        ("CCCO.|30%|CC(C)O.|700|", 1000.0, [0.3, 0.7]),             # consistent
        ("CCCO.|30%|CC(C)O.|700|", 500.0, [0.3, 1.4]),              # the supplied mass contradicts the text (smaller)
        ("CCCO.|30%|CC(C)O.|700|", 2000.0, [0.3, 0.35]),            # ... (larger)
        ("CCCO.|20%|CC(C)O.|30%|CCOC.|600|", 1200.0, [0.2, 0.3, 0.5]),
        ("CCCO.|20%|CC(C)O.|30%|CCOC.|600|", 400.0, [0.2, 0.3, 1.5]),
        ("CCCO.|250|CC(C)O.|750|", 1000.0, [0.25, 0.75]),
        ("CCCO.|250|CC(C)O.|750|", 800.0, [0.3125, 0.9375]),
        ("CCCO.|40%|CC(C)O", 500.0, [0.4, 0.6]),
        # a trace component: the written values declare shares at the parts-per-billion scale (compared with the floats handed to the generator)
        ("CCCO.|99.9999986%|CC(C)O.|4|", None, [0.999999986, 1.4e-8]),
        ("CCCO.|99.9999996%|CC(C)O", 1e9, [0.999999996, 4e-9]),
        ("CCCO.|99.99999%|CC(C)O.|0.00001%|", 1e6, [0.9999999, 1e-7]),
    ]
    for text, S_, declared in supplied:
        try:
            sysobj = g.System(text, S_) if S_ is not None else g.System(text)
            if not sysobj.generable:
                continue
        except Exception:
            continue          # refused: C12's matter
        for mode, call in (("iterate", E.iterate_call), ("single", E.single_call)):
            rng = X.RecordingRNG(11 + common.seed())
            X.Tap.current = rng
            try:
                call(sysobj, rng)
            except Exception:
                pass
            X.Tap.current = None
            ev = next((e for e in rng.events if e["kind"] == "choice"), None)
            if ev is None:
                continue
            n_sup += 1
            p = rng.raw_p[next(i for i, e in enumerate(e_ for e_ in rng.events if e_["kind"] == "choice") if e is ev)]
            if len(p) != len(declared) or any(abs(a - b) > 1e-9 or abs(a - b) > 1e-6 * b for a, b in zip(p, declared)):
                v.violation("C14:pick-law-is-not-the-written-fraction:supplied-system-mass",
                            f"System({text!r}, {S_}) ({mode}) is accepted and picks its components with p={p}; the written values declare the fractions {declared} "
                            f"(percentage / 100, absolute mass / system mass)", {"system": text, "system_mass": S_})
    v.coverage = {"states": tot_states, "transitions": tot_states, "traces_validated_against_impl": tot_paths, "tree_nodes_validated": tot_nodes,
                  "systems_with_supplied_mass_picks_checked": n_sup,
                  "systems": len(systems(tier)), "pick_events_with_declared_fraction_law": picks, "polymer_system_picks_checked": n_poly, "samples": samples}
    v.assumptions = ["exact decision for components of fixed molecule mass (mean member mass known exactly); the convergence clause itself is statistical and only backed by frequencies (thorough tier, equal-mass systems)",
                     "mass shares converge to the declared fractions iff the per-molecule pick probability is proportional to fraction / mean member mass"]
    return v.finish()
