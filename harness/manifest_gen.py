"""Generates MANIFEST.json from the table below (single source of truth for the registered checks)."""
import json
import os

VERIF = os.path.dirname(os.path.dirname(os.path.abspath(__file__)))

BASELINE_OFF = ("cd /repo && env -u GBIGSMILES_VERIF /venv/bin/python -m pytest -ra -q -p no:cacheprovider "
                "--timeout=900 --continue-on-collection-errors")

CHECKS = {
    "C03": dict(
        category="model_checking",
        text="TLC enumerates the complete descriptor universe (635 descriptors, 403 225 ordered pairs; one state per "
             "descriptor), checks the model theorems (symmetry, [] bonds nothing, weight independence, the iff of the "
             "statement) and validates the implementation's recorded relation row by row (five recordings). Exhaustive: "
             "the universe is finite.",
        design_ref="DESIGN.md 4/C03",
        note="Trusted: TLC, the transcription of the statement as Compatible in spec/Notation.tla, the Python recorder that "
             "calls is_compatible on every ordered pair.",
        technique="TLA+ spec + TLC exhaustive enumeration; implementation relation validated against the spec by TLC",
    ),
}

PENDING_REASON = "check not built yet in this round (design in DESIGN.md); no claim is made"


def main():
    props = [json.loads(l)["id"] for l in open(os.path.join(VERIF, "properties.jsonl"))]
    checks = []
    for pid in props:
        if pid not in CHECKS:
            continue
        c = CHECKS[pid]
        checks.append({
            "property_id": pid,
            "quick_cmd": f"./check {pid} --tier quick",
            "thorough_cmd": f"./check {pid} --tier thorough",
            "evidence_file": f"/verif/evidence/{pid}.json",
            "replay_cmd_template": f"./check {pid} --replay {{path}}",
            "engine": "tlc",
            "level_claimed": {"category": c["category"], "text": c["text"], "design_ref": c["design_ref"]},
            "level_note": c["note"],
            "technique": c["technique"],
        })
    m = {
        "version": 1,
        "setup_cmd": "./setup.sh",
        "hooks": {
            "guard": "GBIGSMILES_VERIF",
            "enable": "no source hooks: the checks import /repo/src directly (PYTHONPATH) and observe through the public API "
                      "and the user-supplied numpy Generator; GBIGSMILES_VERIF=1 is exported by the harness but read by nothing in /repo",
            "baseline_off_cmd": BASELINE_OFF,
            "source_commits": [],
            "add_only": True,
        },
        "engines": [{"name": "tlc", "path": "/verif/spec", "serves_properties": sorted(CHECKS),
                     "kind_free_text": "explicit TLA+ specification checked with TLC; conformance by trace(-tree) validation "
                                       "and replay of TLC-enumerated inputs/configurations/histories into the implementation"}],
        "checks": checks,
        "notes": "See DESIGN.md. Exit 2 of a check = machinery failure (no claim).",
        "not_applicable": [{"property_id": p, "reason": PENDING_REASON} for p in props if p not in CHECKS],
    }
    with open(os.path.join(VERIF, "MANIFEST.json"), "w") as f:
        json.dump(m, f, indent=1)
    print("MANIFEST.json written:", len(checks), "checks")


if __name__ == "__main__":
    main()
