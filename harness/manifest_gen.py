"""Generates MANIFEST.json from the table below (single source of truth for the registered checks)."""
import json
import os

VERIF = os.path.dirname(os.path.dirname(os.path.abspath(__file__)))

BASELINE_OFF = ("cd /repo && env -u GBIGSMILES_VERIF /venv/bin/python -m pytest -ra -q -p no:cacheprovider "
                "--timeout=900 --continue-on-collection-errors")

CHECKS = {
    "C03": dict(
        category="model_checking",
        text="TLC enumerates the complete descriptor universe (1 055 descriptors incl. weight forms none / scalar / list / zero / all-zero list, "
             "1 113 025 ordered pairs; one state per descriptor), checks the model theorems (symmetry, [] bonds nothing, weight independence, the iff of the "
             "statement) and validates the implementation's recorded relation row by row (five recordings: constructor, token-parsed, mixed both ways, "
             "the candidate filter). Exhaustive: the universe is finite. The same theorems are proved for EVERY id in Int and bond order in Nat by the "
             "TLA+ proof system (spec/proofs/CompatProofs.tla, tlapm must prove all obligations in every run).",
        design_ref="DESIGN.md 4/C03",
        note="Trusted: TLC, tlapm and its back ends, the transcription of the statement as Compatible in spec/Conjugation.tla, the Python recorder that "
             "calls is_compatible on every ordered pair.",
        technique="TLA+ spec + TLC exhaustive enumeration; implementation relation validated against the spec by TLC; model theorems proved unbounded with TLAPS",
    ),
}

_GEN_NOTE = ("Trusted: TLC; RDKit for token chemistry (atoms, bonds, attachment atoms of descriptors written as dummy atoms, masses) and for reading "
             "the generated molecule; the recording/scripted numpy Generator subclass; the tap on Distribution.draw_mw. Bounds: exhaustive choice "
             "trees are capped per instance (quick 4 000 nodes, thorough 40 000); larger instances are validated on recorded random streams only.")
_GEN_TECH = "TLA+ spec (Generate.tla) model-checked with TLC; implementation choice trees and random-stream traces validated against it by TLC (trace-tree validation); TLC-generated behaviours replayed into the implementation"
for _p, _t in {
    "C04": "Design: TLC checks on GenerateMC (all choice sequences x target grid per instance) that every bond joins two unused, mutually compatible descriptors with their order (invariants IBonds, action property AttachSound). Conformance: the implementation's complete choice tree of ~70 bounded instances (all archetypes, negative instances whose transition lists point at incompatible descriptors) and recorded random streams of long instances are validated node by node against the spec; at every return the generated molecule must equal, atom by atom and bond by bond, the molecule the spec's residue tree denotes.",
    "C05": "Design: TLC checks TreeInv / Connected / MassInv on every reachable state of GenerateMC. Conformance: every returned molecule of every explored schedule must equal the spec's assembly of whole token copies (element, charge, isotope, aromaticity, hydrogen count per atom, internal bonds, one bond per attachment), be sanitisable, and have mass = sum of residue masses; chemistry-rich token families (aromatic, charged, bracket, isotopic, polycyclic). Residue numbering (spec/Residues.tla, evaluated by TLC on the instance library and on two-component systems) is compared with the numbers on parsed tokens and generated atoms; differences are divergences in the evidence, not violations.",
    "C06": "Design: TLC checks on GenerateMC WellPosed (no error reachable) for the instances the analysis calls well-posed, Closed / ElementOrder / NeighbourBonds / TerminalsRespected / EndGroupsAreLeaves in every done state, and the liveness property Termination under weak fairness without state constraint. Conformance: on every explored schedule the implementation returns exactly when the spec is done and raises exactly when the spec reaches error; the same done-state predicates are evaluated on the state that follows the implementation. Instances include a molecule with more than 26 tokens (the pinned tree could not generate it; repaired).",
    "C07": "Design: TLC checks StopRule and GrowOnlyBelowTarget on GenerateMC over a target grid bracketing every cumulative mass (+-1 mDa, equal, negative, zero). Conformance: targets forced through the library's own draw (zero-width gaussian) incl. exact-equality floats, negative and sub-unit targets, second blocks and end-group starts; the spec keeps the branch of the stop comparison that was not taken, so a divergence of the stop rule is told apart from a divergence of a selection law (an explanation by the branch not taken is dropped when the very next event refutes it). Refinement: TLC checks on every model instance that GenerateMC implements the abstract accumulation machine spec/FirstCrossing.tla (PROPERTY ImplementsFirstCrossing of spec/GenerateRefinesFC.tla), whose theorem - every finished accumulation stopped at the first partial sum exceeding its limit - is proved for all masses and targets by the TLA+ proof system (spec/proofs/FirstCrossingProofs.tla, re-proved in every run); the same inductive invariant is discharged symbolically by Apalache (spec/apalache/FirstCrossingApa.tla: holds initially, preserved by every step). The drawn target of a zero-width law must be the written value (the observation point is what the draw returns).",
    "C08": "Design: LawNormalised on every decision state. Conformance: at EVERY call of rng.choice on every explored path the candidate list and the probability vector (as exact fractions) must equal the spec's candidates and Law / TransLaw, options of probability zero are never taken, for all eight decision kinds x {forced, uniform, zero-next-to-nonzero, unequal} (census enforced as a vacuity guard); complete trees additionally have recorded probability mass exactly 1, so the exact distribution over molecules equals the spec's.",
}.items():
    CHECKS[_p] = dict(category="model_checking", text=_t + " Specification -> code: TLC also GENERATES the schedules - every distinct terminal state of the machine with its decision history "
                      "(GenerateMCH under VIEW; simulation mode for targets of hundreds of units in the thorough tier) - and the real code is stepped through each of them (scripted decisions, "
                      "forced targets); what it did is judged by the same trace validation.", design_ref="DESIGN.md 4/" + _p, note=_GEN_NOTE, technique=_GEN_TECH)

CHECKS["C02"] = dict(
    category="model_checking",
    text="TLC enumerates every token text up to a length over the alphabet {atom, (, ), =, #, ring open/close, descriptor} (spec/TokenScan.tla; "
         "the state of the writer is the MEANING of the text: atoms, bonds, attachment atom and order of each descriptor) and checks its model "
         "theorems; the specification's meaning is first cross-checked against RDKit's SMILES semantics with the descriptor written as a dummy atom, "
         "then every text is concretised (element pools by valence, ids, every float syntax, lists) and the real SmilesToken is compared field by "
         "field (symbol, id, weight, list, atom, order, fragment, atom list). Element level (terminals, unit lists, distribution family and parameters, "
         "element kinds and order) is compared for the instance library and seeded archetypes in four whitespace / number-format variants. System level: SystemScan.tla gives the grammar of a system text (molecules closed by mixture specifiers in four number syntaxes, a descriptor whose weight ends in '.|' inside its brackets, blanks) and the character-level scanner (a specifier starts at the first '.|' outside square brackets); TLC checks over every sequence of pieces up to a length that the scanner recovers exactly the denotation, and every sequence is replayed into System(text) and Molecule(text): component count, written mixture values, component tokens, acceptance of determined well-formed texts.",
    design_ref="DESIGN.md 4/C02",
    note="Trusted: TLC, RDKit (reference SMILES semantics), the independent printer. Bound: all token texts up to 9 (quick) / 11 (thorough) symbols.",
    technique="TLA+ writer/scanner spec enumerated exhaustively by TLC; every enumerated behaviour replayed into the parser and compared with the spec state",
)
CHECKS["C12"] = dict(
    category="model_checking",
    text="TLC enumerates ALL mixture configurations of a bounded space (1-3 components quick, 1-4 thorough; absolute / percent / unspecified; value sets that "
         "produce consistent, over-100, under-100 and contradictory totals; with and without caller-supplied system mass), solves each with the reference "
         "solver of spec/Mixture.tla in exact rationals, checks the model theorems (sum to 100, abs = pct*S/100, user values kept), and every configuration is "
         "replayed into the real System: outcome class and every mass / percentage compared, then str -> re-parse -> masses again. The linked setters of one Mixture object are a state machine of their own (MixtureObject.tla, exact rationals): TLC explores every sequence of setter calls after construction over a grid of values (zero, negative, above 100), checks Linked / Ranges / AbsKeptBySetRel, and every history is stepped through the real object.",
    design_ref="DESIGN.md 4/C12",
    note="Trusted: TLC, the reference solver as transcription of the statement. Exhaustive within the value sets. Component masses are read from System._molecules (no public accessor).",
    technique="TLA+ reference solver + TLC exhaustive enumeration of configurations; each configuration replayed into the implementation",
)

CHECKS["C01"] = dict(
    category="model_checking",
    text="The input space is enumerated by TLC from the specification: every token text up to a length (TokenScan.tla) and every molecule SHAPE of the bounded "
         "grammar (MoleculeSyntax.tla: prefix / connector / suffix absent, implicit or explicit; all terminal symbols; 1-2 objects; unit and end-group counts; "
         "mixture forms), for which TLC also checks that descriptor insertion is idempotent and that erasure keeps every structural lexeme. Every enumerated input, "
         "every descriptor form, the instance library, seeded archetypes and every string quoted in README / SI.md / tests are replayed through "
         "parse -> print -> parse -> print, compared by object signature, by seeded generation, and by the extension-free form (= canonical with |...| erased, accepted again). Shapes are concretised with ids none / 0 / 1 / 12 on every descriptor; multi-component systems over a grid of written specifiers (0 %, thirds, absolute 0, unspecified last component); a distribution is compared by its text AND by what it draws at a fixed quantile; token weights that print in exponent notation.",
    design_ref="DESIGN.md 4/C01",
    note="Trusted: TLC, the independent printer, RDKit for canonical fragments. Relational oracle: only what the statement demands (the text of the canonical form is never prescribed).",
    technique="TLA+ grammar specs enumerated exhaustively by TLC (model theorems checked); every enumerated input replayed into the implementation (round trips)",
)
CHECKS["C15"] = dict(
    category="model_checking",
    text="Ill-formed inputs are derived from the specification: the breaking actions of TokenScan.tla plus every single-symbol insertion / deletion on every "
         "TLC-enumerated valid token text that violates a rule the statement lists; at object level one breaking operator per rule of the statement (unknown "
         "distribution, list length, negative weight, text after mixture, percentage range, non-generable, missing / mismatching prefix in both directions, braces, "
         "brackets, unknown symbol) applied to library instances and TLC-enumerated shapes. The real outcome must be a rejection (parse error, not generable, or error "
         "at generate); a returned token / molecule is the violation. Parsing of byte-level mutations must return within a time bound. Rejected texts are parsed a second time in the same process (a rejection must not depend on history); systems with a non-generable component in every position and with negative masses must refuse; every system text of SystemScan.tla up to a length is checked for termination and for text after a mixture specifier.",
    design_ref="DESIGN.md 4/C15",
    note="Trusted: TLC; the rule predicates (branch balance in written order, descriptor between atoms). The termination clause on arbitrary bytes is bounded-time fuzzing, not model checking.",
    technique="TLA+ spec with breaking actions enumerated by TLC; derived ill-formed inputs replayed into the parser / generator",
)
CHECKS["C13"] = dict(
    category="model_checking",
    text="Ensemble.tla (component pick, member generation by the component's own generation machine - Generate instantiated per component -, fully-generated "
         "requirement, accumulation, stop at the first member reaching the system mass). The implementation's complete choice tree of System.generator and "
         "System.generate for small systems (fixed molecules, polymers, exact-boundary system mass, a component that cannot be completed, a 0 % component) is "
         "validated node by node by TLC (EnsembleTrace.tla): every yielded member must be a behaviour of the picked component's machine and equal its result; the "
         "iteration must end exactly when the model ends; non-generable systems must refuse on both entry points. EnsembleMC model-checks the machine "
         "(IStop, OnlyCompleteMembers, AccumulatesMemberMass, Termination) and TLC checks that it implements spec/FirstCrossing.tla with the non-strict comparison "
         "(spec/EnsembleRefinesFC.tla); FirstCrossing's theorem is proved unbounded by tlapm in every run and its inductive invariant is discharged symbolically by Apalache (spec/apalache/FirstCrossingApa.tla). "
         "Specification -> code: TLC generates the schedules of the ensemble machine (EnsembleMCH: component picks, decisions and targets of every member; every distinct terminal state, "
         "simulation mode in the thorough tier), System.generator is stepped through each with a scripted generator and forced targets, and EnsembleTrace judges what it did.",
    design_ref="DESIGN.md 4/C13",
    note="Trusted: TLC, RDKit (reading molecules), the scripted generator. System.generator's rng is passed through the property's fget.",
    technique="TLA+ spec (Ensemble.tla with parametrised INSTANCE Generate); implementation choice trees validated by TLC",
)
CHECKS["C14"] = dict(
    category="model_checking",
    text="Decided at the generator interface: for mass shares to converge to the declared fractions the per-molecule pick law must be proportional to "
         "fraction / mean member mass (ShareLawHolds in Ensemble.tla, integer cross-multiplication). TLC evaluates this on every recorded component pick of "
         "systems with fixed-mass components (mass ratios 1-100, zero and non-integer percentages, 2-4 components). The unchanged code uses the declared fractions "
         "per molecule: recorded as a known finding that is matched ONLY by that exact law; any other vector (wrong component index, truncated percentages) is a "
         "new violation. Thorough tier adds a frequency backstop on equal-mass systems. Systems with a supplied mass and with trace components (parts per billion) are compared as the floats handed to the generator.",
    design_ref="DESIGN.md 4/C14",
    note="The convergence clause itself is statistical; the exact decision is made on the selection probabilities. Trusted: TLC, exact masses of fixed molecules from RDKit.",
    technique="TLA+ law (Ensemble.tla) evaluated by TLC on recorded pick events (trace validation)",
)

CHECKS["C10"] = dict(
    category="model_checking",
    text="History.tla models slots holding parsed objects and the hidden state the implementation has (per-object use count, module-level generator, typing cache); "
         "TLC enumerates ALL histories to depth 3 (thorough: depth 4 on two strings) over parse / generate(seed) / generate(module generator) / perturb module generator / "
         "observe (both printed forms, generable, elements, mirror, reaction graph, atom graph) / element-by-element generation / atom-graph generation, on two slots that "
         "may hold the same string. Every history is replayed in the real library and every observation compared with a baseline computed in a pristine interpreter per "
         "(string, operation, argument). Strings include a left terminal with a transition list, a gaussian with negative draws (seed chosen so that the target IS negative), "
         "branched weighted end-group starts, Schulz-Zimm alternating copolymers and a connector molecule. The strings include listed transitions that decide the molecule, two systems that re-use number texts as percentage and as mass, one fragment in two spellings, all-zero choices; systems are observed through single-molecule generation and the whole ensemble under a seeded generator.",
    design_ref="DESIGN.md 4/C10",
    note="Trusted: TLC (enumeration of histories), the baseline = same code in a spawned pristine process (two pristine processes are also compared with each other).",
    technique="TLA+ history spec enumerated exhaustively by TLC; every history replayed into the implementation against pristine baselines",
)
CHECKS["C20"] = dict(
    category="model_checking",
    text="(1) Typing part of History.tla: all call sequences to depth 3 (thorough 4, two slots) over {parse, type with default files, with explicit copies A and B of the bundled "
         "files, on a partially generated molecule}. Every typing observation is checked for totality (one parameter set per atom incl. hydrogens, or FfAssignmentError "
         "carrying the partial assignment), element consistency (parameter mass = element mass), equality with the pristine baseline (history independence), equality "
         "between copied and default files, refusal of partial molecules, and independence of atom numbering (equivalent strings). "
         "(2) Typing.tla specifies the assignment as a function of the match relation between rules and atoms (longest matching rule text, earliest among equals; total or the "
         "assignment error with exactly the partial assignment); TLC checks its theorems (exactly one type per atom, numbering-free under every permutation, longest wins) over "
         "EVERY match relation of a small universe (TypingMC); the TLA+ proof system proves numbering independence of the specified assignment for every number of atoms, rule "
         "list, match relation and permutation (proofs/TypingProofs.tla, 23 obligations); TLC validates every recorded call of get_type_assignments / MolGen.forcefield_types - each generated molecule in "
         "its own and in random atom numberings (Chem.RenumberAtoms) - against the specification atom by atom (TypingTrace: outcome, typed atoms, type, mass of the element, "
         "renumbered result = result renumbered).",
    design_ref="DESIGN.md 4/C20",
    note="Trusted: TLC, RDKit (SMARTS matching = the match relation, atomic weights); OPLS masses rounded (tolerance 0.02 Da). The harness reads the bundled rule / parameter "
         "files with its own reader. A different choice among matching rules is reported as a divergence, not as a violation (C20 does not prescribe it).",
    technique="TLA+ history spec enumerated exhaustively by TLC and replayed into the implementation; TLA+ spec of the assignment function model-checked over all match relations and used by TLC to validate recorded typing calls in random atom numberings",
)

CHECKS["C16"] = dict(
    category="model_checking",
    text="ReactionGraph.tla defines the reaction graph as an operator of the instance built from the same Law / TransLaw / Compatible as the generation machine. "
         "TLC checks on every reachable state of the machine (RGCheck = GenerateMC + ReactionGraph) that the law at every partner / listed / capping / hand-over decision "
         "IS the out-edge set of the chosen descriptor's node (GraphAgrees), plus normalisation and compatibility of weight edges; the graph is exported and compared node by "
         "node and edge by edge (kind, target, probability) with Molecule.gen_reaction_graph() for the instance library and seeded archetypes. Three known causes of "
         "discrepancy in the unchanged code are recorded as known findings and matched only when their cause is verified on the instance. The graph of a mirrored molecule must not depend on an earlier graph call on the original; gen_mirror itself is specified in spec/Mirror.tla (evaluated by TLC on the instance library, compared element by element; divergences in the evidence).",
    design_ref="DESIGN.md 4/C16",
    note="Trusted: TLC; node identification through Molecule._elements. Edges of probability zero are ignored on both sides.",
    technique="TLA+ spec (graph as operator + invariant tying it to the generation machine) model-checked with TLC; exported graph compared with the implementation's",
)

CHECKS["C17"] = dict(
    category="model_checking",
    text="AtomGraph.tla defines the stochastic atom graph as an operator of the instance (nodes per atom with element / charge / aromaticity, static edges, and "
         "stochastic / termination / transition edges between attachment atoms of compatible descriptors built from the same descriptor algebra as the generation "
         "machine); TLC evaluates it per instance, checks NothingLeavesEndGroups and StaticSymmetric, and exports it; every node and edge (kind, order, weight, as "
         "multisets per atom pair) is compared with Molecule.gen_stochastic_atom_graph().graph in both directions, with and without Schulz-Zimm distributions. The dot export is exercised as a read-only query: the graph object is compared before and after.",
    design_ref="DESIGN.md 4/C17",
    note="Trusted: TLC, RDKit token chemistry. Zero-weight non-static edges are ignored on both sides; termination edges out of a listed descriptor are admissible with free weight.",
    technique="TLA+ spec (graph as operator of the instance) evaluated by TLC; exported graph compared edge by edge with the implementation's",
)
CHECKS["C18"] = dict(
    category="model_checking",
    text="(1) AtomGenMachine.tla is the step-level machine of AtomGraph.generate over an arbitrary stochastic atom graph (CONSTANT): static completion of a residue in depth-first "
         "order, pick of the reacting atom, provisional termination of all others, one Schulz-Zimm draw per (Mw, Mn), comparison of the TERMINATED block mass, undo or keep, "
         "transition to the next block - one action per call on the random generator. AtomGenMC model-checks it on the graph object the implementation built for each instance: "
         "every option at every decision x a target grid; invariants C18State (whole residues, exact internal bonds, links along non-static edges with their order, residue tree), "
         "ILaw, NoError, action properties GrowsOnly / OneDrawPerKey, liveness Termination. "
         "(2) code -> spec: the implementation's complete choice tree (scripted generator, quantile grid for the draw) is validated node by node by AtomGenTrace (number of options, "
         "probability vector, draw, and the generated graph atom by atom at every return). (3) spec -> code: the behaviours TLC generates from AtomGenMCH (exhaustive under VIEW, "
         "simulation mode for targets of hundreds of units in the thorough tier) are replayed into AtomGraph.generate with scripted decisions and forced targets; the built graph "
         "must be the machine's. (4) every molecule the code built in (2), (3) and under recorded random streams is validated by AtomGen.tla against the SPECIFICATION's atom graph "
         "(whole tokens, internal bonds, links = non-static edges with their order, tree); equal scripts / seeds -> equal decisions and molecules; sanitisation and connectivity from RDKit.",
    design_ref="DESIGN.md 4/C18",
    note="A step where the code does not follow the machine (other probabilities, other graph) is recorded as a divergence in the evidence and is NOT a violation: C18 is judged on the "
         "clauses of its statement (followed-state predicates and the molecules built). Molecules without a start node are outside the statement. Options the code only has because it "
         "adds 1e-300 to every weight are not explored in (2) but are in (1) and (3). Trusted: TLC, RDKit.",
    technique="TLA+ state machine of atom-graph generation model-checked by TLC (safety + liveness) per instance graph; trace-tree validation of the implementation's choice tree against it; TLC-generated behaviours replayed into the implementation; generated molecules validated against the spec's atom graph",
)

_LAW_NOTE = ("Weaker than the structural properties, and said so: the real-valued content (densities, CDFs, quantiles) enters as integer tables (scaled 1e8) computed by an independent numeric "
             "oracle (harness/refcdf.py, standard library math only); TLC checks the relations the statement demands between the recorded numbers and those tables, not the analysis. "
             "Trusted: refcdf.py, TLC, the scripted numpy Generator.")
CHECKS["C09"] = dict(
    category="model_checking",
    text="Decided deterministically at the generator interface, not statistically: for every family x parameter set x molecule shape (one block, two blocks of the same family with "
         "different parameters, two blocks of different families, end-group start) the scripted generator answers the distribution's draw at each quantile of a grid; the block must "
         "stop in the bin F(M_{n-1}) <= u < F(M_n) of the DECLARED law with the documented parameter roles (Law.tla, record kind 'block'; CDF table at the cumulative unit masses). "
         "Also: exactly one draw per stochastic object per generation, each block governed by its own draw, Poisson requested with the declared mean. The scripted generator answers PER KIND of call (uniform() with u, standard_normal() with the matching z), so a law drawn through another family's sampler is seen; starting end groups of different mass are chosen in turn on one object.",
    design_ref="DESIGN.md 4/C09", note=_LAW_NOTE,
    technique="TLA+ law relations (Law.tla) checked by TLC on records of a scripted quantile sweep through the implementation",
)
CHECKS["C11"] = dict(
    category="model_checking",
    text="Law.tla states what makes recorded numbers ONE coherent law (mass function non-negative and equal to the declared law, total mass 1, interval probability = difference of the "
         "law's own cumulative function, a draw at quantile u returns x with F(x-) <= u <= F(x) inside the support, documented mean) and TLC evaluates it on every record; records come "
         "from parameter grids of all six families (several objects of a family alive together), scripted quantile grids for the draws, random intervals; text form and rejection of "
         "unknown names are checked directly. Laws of different families whose parameters coincide as location / scale are created next to each other in both orders; the parameter line z = 1 of Schulz-Zimm is included.",
    design_ref="DESIGN.md 4/C11", note=_LAW_NOTE,
    technique="TLA+ law relations (Law.tla) checked by TLC on recorded values of prob_mw / interval / draw_mw",
)
CHECKS["C19"] = dict(
    category="model_checking",
    text="(1) Machine-derived: spec/GenerateProb.tla is the generation machine (GenerateMC) with the history of law fractions taken; TLC enumerates every behaviour for one "
         "representative target per interval of cumulative block masses and exports every terminal molecule atom by atom; the probability of a molecule is the sum over "
         "behaviours of product(choices) x product(interval probabilities of the declared law); get_ensemble_prob must report that number for EVERY molecule in the machine's "
         "support (10 instances: prefix / end-group starts with weights, closing end groups, two blocks, connector, four families, locally symmetric groups). "
         "(2) Closed form P = start probability x product over blocks of F(M_n) - F(M_{n-1}) (reference CDF at the cumulative unit masses). get_ensemble_prob is queried for every chain "
         "length with non-negligible mass for one to three blocks, prefix / [H] start / two competing start groups, all six families (two parameter sets per family on the same unit), "
         "random atom orders of the query, and molecules outside the ensemble; single-block relations (record kinds 'chain', 'total', 'zero') are evaluated by TLC, products of several "
         "blocks in Python. Five defects of the unchanged code are known findings, recognised by designated probe cases or by their verified cause. Chain lengths whose block mass lies outside a bounded support are outside the ensemble and must get probability 0.",
    design_ref="DESIGN.md 4/C19", note=_LAW_NOTE,
    technique="distribution over molecules derived by TLC from the generation-machine spec (GenerateProb.tla) compared with the reported probabilities; TLA+ law relations (Law.tla) checked by TLC on recorded ensemble probabilities",
)

PENDING_REASON = "check not built yet in this round (design in DESIGN.md); no claim is made"


def main():
    props = [json.loads(l)["id"] for l in open(os.path.join(VERIF, "properties.jsonl"))]
    checks = []
    for pid in props:
        if pid not in CHECKS:
            continue
        c = CHECKS[pid]
        checks.append({
            "property_id": pid,
            "quick_cmd": f"./check {pid} --tier quick",
            "thorough_cmd": f"./check {pid} --tier thorough",
            "evidence_file": f"/verif/evidence/{pid}.json",
            "replay_cmd_template": f"./check {pid} --replay {{path}}",
            "engine": "tlc",
            "level_claimed": {"category": c["category"], "text": c["text"], "design_ref": c["design_ref"]},
            "level_note": c["note"],
            "technique": c["technique"],
        })
    m = {
        "version": 1,
        "setup_cmd": "./setup.sh",
        "hooks": {
            "guard": "GBIGSMILES_VERIF",
            "enable": "no source hooks: the checks import /repo/src directly (PYTHONPATH) and observe through the public API "
                      "and the user-supplied numpy Generator; GBIGSMILES_VERIF=1 is exported by the harness but read by nothing in /repo",
            "baseline_off_cmd": BASELINE_OFF,
            "source_commits": [],
            "add_only": True,
        },
        "engines": [{"name": "tlc", "path": "/verif/spec", "serves_properties": sorted(CHECKS),
                     "kind_free_text": "explicit TLA+ specification checked with TLC; conformance by trace(-tree) validation "
                                       "and replay of TLC-enumerated inputs/configurations/histories into the implementation"}],
        "checks": checks,
        "notes": "See DESIGN.md. Exit 2 of a check = machinery failure (no claim).",
        "not_applicable": [{"property_id": p, "reason": PENDING_REASON} for p in props if p not in CHECKS],
    }
    with open(os.path.join(VERIF, "MANIFEST.json"), "w") as f:
        json.dump(m, f, indent=1)
    print("MANIFEST.json written:", len(checks), "checks")


if __name__ == "__main__":
    main()
