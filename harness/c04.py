from . import genprops


def run(tier):
    return genprops.run("C04", tier)
