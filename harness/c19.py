"""C19 - ensemble probability of linear directed chains equals generation probability."""
import math
import random

from . import common, refcdf as R, lawcheck as LC
from .common import Verdict, MachineryError
from .lawcheck import sc, S


def hmass(smiles):
    from rdkit import Chem
    from rdkit.Chem import Descriptors
    return Descriptors.HeavyAtomMolWt(Chem.MolFromSmiles(smiles))


def dist_text(fam, par):
    return f"|{fam}({', '.join(str(p) for p in par)})|"


DISTS = {"quick": [("gauss", (100, 20)), ("uniform", (40, 200)), ("log_normal", (90, 1.2)), ("poisson", (65,)), ("flory_schulz", (0.03,)), ("schulz_zimm", (180, 140)),
                   # a second parameter set per family on the SAME unit (same cumulative masses): laws of one family must not share state
                   ("flory_schulz", (0.1,)), ("gauss", (150, 30)), ("log_normal", (60, 1.1)), ("poisson", (110,)), ("schulz_zimm", (400, 300)), ("uniform", (90, 170))],
         "thorough": [("gauss", (100, 20)), ("gauss", (400, 30)), ("uniform", (40, 200)), ("uniform", (500, 600)), ("log_normal", (90, 1.2)), ("log_normal", (50, 1.1)),
                      ("poisson", (65,)), ("poisson", (150,)), ("flory_schulz", (0.03,)), ("flory_schulz", (0.1,)), ("schulz_zimm", (180, 140)), ("schulz_zimm", (1000, 900))]}

# unit: (token text, chain piece as written along the chain from the prefix side, heavy mass)
UNITS = [("[<]C(N)C[>]", "CC(N)"), ("[<]C(=O)C[>]", "CC(=O)"), ("[<]C(Cl)C[>]", "CC(Cl)")]


class Case:
    def __init__(self, name, text, blocks, start, build, startprob=(1, 1), probe=None):
        self.name, self.text, self.blocks, self.start, self.build, self.startprob = name, text, blocks, start, build, startprob
        self.probe = probe      # name of the known defect this case is a designated probe of (None: a clean case)


def make_cases(tier):
    out = []
    fam_unit = {}
    for k, (fam, par) in enumerate(DISTS[tier]):
        fam_unit.setdefault(fam, UNITS[len(fam_unit) % len(UNITS)])
        tok, piece = fam_unit[fam]
        d = dist_text(fam, par)
        # prefix start, one block, suffix
        out.append(Case(f"prefix-1block-{fam}{par}", f"OCC{{[<]{tok}[>]}}{d}[Si]", [(fam, par, piece)], "prefix",
                        lambda ns, piece=piece: "OCC" + piece * ns[0] + "[Si]"))
        # end group of zero heavy mass starts; one alternative heavy end group closes
        out.append(Case(f"hstart-1block-{fam}{par}", f"{{[]{tok}; [<][H], [>][H] []}}{d}", [(fam, par, piece)], "H-start",
                        lambda ns, piece=piece: "[H]" + piece * ns[0] + "[H]"))
    fam1, par1 = DISTS[tier][0]
    fam2, par2 = DISTS[tier][2]
    fam3, par3 = DISTS[tier][3]
    t1, p1 = UNITS[0]
    t2, p2 = UNITS[1]
    t3, p3 = UNITS[2]
    out.append(Case("prefix-2blocks", f"OCC{{[<]{t1}[>]}}{dist_text(fam1, par1)}{{[<]{t2}[>]}}{dist_text(fam2, par2)}[Si]",
                    [(fam1, par1, p1), (fam2, par2, p2)], "prefix", lambda ns: "OCC" + p1 * ns[0] + p2 * ns[1] + "[Si]"))
    out.append(Case("prefix-2blocks-connector", f"OCC{{[<]{t1}[>]}}{dist_text(fam1, par1)}CC[Si]C{{[<]{t2}[>]}}{dist_text(fam3, par3)}F",
                    [(fam1, par1, p1), (fam3, par3, p2)], "prefix", lambda ns: "OCC" + p1 * ns[0] + "CC[Si]C" + p2 * ns[1] + "F"))
    if tier == "thorough":
        out.append(Case("prefix-3blocks", f"OCC{{[<]{t1}[>]}}{dist_text(fam1, par1)}{{[<]{t2}[>]}}{dist_text(fam2, par2)}{{[<]{t3}[>]}}{dist_text(fam3, par3)}[Si]",
                        [(fam1, par1, p1), (fam2, par2, p2), (fam3, par3, p3)], "prefix", lambda ns: "OCC" + p1 * ns[0] + p2 * ns[1] + p3 * ns[2] + "[Si]"))
    # two end groups that can start, only one of them occurs in the queried molecule: start probability 1/2 resp. 3/4
    fam, par = DISTS[tier][0]
    tok, piece = UNITS[0]
    out.append(Case("two-start-groups", f"{{[]{tok}; [<][H], [<]F [>]}}{dist_text(fam, par)}[Si]", [(fam, par, piece)], "H-start",
                    lambda ns, piece=piece: "[H]" + piece * ns[0] + "[Si]", startprob=(1, 2)))
    out.append(Case("two-start-groups-weighted", f"{{[]{tok}; [<|3|][H], [<]F [>]}}{dist_text(fam, par)}[Si]", [(fam, par, piece)], "H-start",
                    lambda ns, piece=piece: "[H]" + piece * ns[0] + "[Si]", startprob=(3, 4)))
    # heavy starting end group (the start group's mass must not count in the block)
    fam, par = DISTS[tier][0]
    tok, piece = UNITS[0]
    out.append(Case("heavy-start", f"{{[]{tok}; [<]F, [>]O []}}{dist_text(fam, par)}", [(fam, par, piece)], "heavy-start",
                    lambda ns, piece=piece: "F" + piece * ns[0] + "O", probe="start-group-mass-counted-in-block"))
    out.append(Case("ether-unit", f"OCC{{[<][<]CC(C)O[>][>]}}{dist_text(fam, par)}[Si]", [(fam, par, "OC(C)C")], "prefix",
                    lambda ns: "OCC" + "OC(C)C" * ns[0] + "[Si]", probe="depends-on-atom-order-when-a-token-pattern-is-symmetric"))
    # locally symmetric substituents (equivalent atoms that carry no descriptor): one generation route, counted once
    out.append(Case("gem-difluoro-unit", f"OCC{{[<][<]C(F)(F)C[>][>]}}{dist_text('gauss', (150, 40))}[Si]", [("gauss", (150, 40), "CC(F)(F)")], "prefix",
                    lambda ns: "OCC" + "CC(F)(F)" * ns[0] + "[Si]"))
    out.append(Case("isopropyl-suffix", f"OCC{{[<]{tok}[>]}}{dist_text(fam, par)}C(C)C", [(fam, par, piece)], "prefix",
                    lambda ns, piece=piece: "OCC" + piece * ns[0] + "C(C)C"))
    # two end groups can close the chain: generation picks one in proportion to its weight
    out.append(Case("two-closing-end-groups", f"OCC{{[<]{tok}; [>]F, [>]Cl []}}{dist_text(fam, par)}", [(fam, par, piece)], "prefix",
                    lambda ns, piece=piece: "OCC" + piece * ns[0] + "Cl", startprob=(1, 2), probe="choice-among-closing-end-groups-not-counted"))
    out.append(Case("two-closing-end-groups-weighted", f"OCC{{[<]{tok}; [>|3|]F, [>]Cl []}}{dist_text(fam, par)}", [(fam, par, piece)], "prefix",
                    lambda ns, piece=piece: "OCC" + piece * ns[0] + "F", startprob=(3, 4), probe="choice-among-closing-end-groups-not-counted"))
    # a law with noticeable mass below zero: those targets give one-unit chains
    out.append(Case("wide-gauss", f"OCC{{[<]{tok}[>]}}{dist_text('gauss', (60, 50))}[Si]", [("gauss", (60, 50), piece)], "prefix",
                    lambda ns, piece=piece: "OCC" + piece * ns[0] + "[Si]"))
    # symmetric repeat unit (atom order of the query)
    out.append(Case("symmetric-unit", f"OCC{{[<][<]CC[>][>]}}{dist_text(fam, par)}[Si]", [(fam, par, "CC")], "prefix",
                    lambda ns: "OCC" + "CC" * ns[0] + "[Si]", probe="depends-on-atom-order-when-a-token-pattern-is-symmetric"))
    return out


def machine_cases(tier):
    """instances for the machine-derived distribution: AST, representatives for 1..nmax units per block, and (optionally) which molecules a
    recorded defect touches (probe(smiles, units) -> key of the known finding or None)"""
    from .gast import M, S, Token
    from .instances import _imp
    pre = lambda: Token(["OCC", _imp("<", w=0)])
    suf = lambda t="[Si]": Token([_imp(">"), t])
    G1, U1, P1, W1 = ("gauss", [100, 20]), ("uniform", [40, 200]), ("poisson", [65]), ("gauss", [60, 50])
    heavy = "start-group-mass-counted-in-block"
    closing = "choice-among-closing-end-groups-not-counted"
    n = 6 if tier == "quick" else 9
    out = [
        dict(name="prefix-suffix", mol=M(pre(), S("[<]", ["[<]C(N)C[>]"], [], "[>]", G1), suf(), name="m-prefix-suffix"), nmax=n),
        dict(name="prefix-suffix-uniform", mol=M(pre(), S("[<]", ["[<]C(=O)C[>]"], [], "[>]", U1), suf(), name="m-uniform"), nmax=n),
        dict(name="prefix-suffix-poisson", mol=M(pre(), S("[<]", ["[<]C(Cl)C[>]"], [], "[>]", P1), suf(), name="m-poisson"), nmax=4),
        dict(name="hstart", mol=M(S("[]", ["[<]C(N)C[>]"], ["[<][H]", "[>][H]"], "[]", G1), name="m-hstart"), nmax=n),
        dict(name="two-start-weighted", mol=M(S("[]", ["[<]C(N)C[>]"], ["[<|3|][H]", "[<]F"], "[>]", G1), suf(), name="m-two-start"), nmax=n,
             probe=lambda smi, units: heavy if "F" in smi else None),
        dict(name="two-closing", mol=M(pre(), S("[<]", ["[<]C(N)C[>]"], ["[>|3|]F", "[>]Cl"], "[]", G1), name="m-two-closing"), nmax=n,
             probe=lambda smi, units: closing),
        dict(name="two-blocks", mol=M(pre(), S("[<]", ["[<]C(N)C[>]"], [], "[>]", G1), S("[<]", ["[<]C(=O)C[>]"], [], "[>]", U1), suf(), name="m-two-blocks"), nmax=5),
        # two neighbouring blocks of the SAME unit: a chain of n units is reached through every split (k, n - k); its probability is the sum
        dict(name="two-blocks-same-unit", mol=M(pre(), S("[<]", ["[<]C(N)C[>]"], [], "[>]", G1), S("[<]", ["[<]C(N)C[>]"], [], "[>]", ("gauss", [110, 20])), suf(),
                                                name="m-two-blocks-same-unit"), nmax=6),
        dict(name="connector", mol=M(pre(), S("[<]", ["[<]C(N)C[>]"], [], "[>]", G1), Token([_imp(">"), "CC[Si]C", _imp("<", w=0)]),
                                     S("[<]", ["[<]C(=O)C[>]"], [], "[>]", P1), suf("F"), name="m-connector"), nmax=4),
        dict(name="wide-gauss", mol=M(pre(), S("[<]", ["[<]C(N)C[>]"], [], "[>]", W1), suf(), name="m-wide"), nmax=n),
        dict(name="gem-difluoro-isopropyl", mol=M(pre(), S("[<]", ["[<]C(F)(F)C[>]"], [], "[>]", ("gauss", [150, 40])), suf("C(C)C"), name="m-sym"), nmax=n),
    ]
    return out


def key_of(case, clause):
    return f"C19:{case.probe}" if case.probe else f"C19:{clause}@{case.name}"


def block_prob(ref, m, n):
    hi = ref.cdf(math.floor(n * m + 1e-9) if ref.discrete else n * m)
    # a target at or below zero also ends the block after its first unit: one-unit chains get the whole lower tail
    lo = ref.cdf(math.floor((n - 1) * m + 1e-9) if ref.discrete else (n - 1) * m) if n > 1 else 0.0
    return hi - lo, lo, hi


def run(tier):
    g = common.import_repo()
    from rdkit import Chem
    v = Verdict("C19", tier)
    rnd = random.Random(common.seed() + 19)
    records, meta = [], []
    n_queries = 0
    samples = []
    NMAX = 14 if tier == "quick" else 40
    for case in make_cases(tier):
        try:
            mol = g.Molecule(case.text)
        except Exception as exc:
            raise MachineryError(f"{case.text}: {exc}")
        refs = [R.law(f, p) for f, p, _ in case.blocks]
        masses = [hmass(piece) for _, _, piece in case.blocks]
        tolfam = max((3e-3 if f == "schulz_zimm" else 2e-7) for f, _, _ in case.blocks)

        def query(smiles):
            nonlocal n_queries
            n_queries += 1
            r = g.get_ensemble_prob(smiles, mol)
            return float(r[0]) if isinstance(r, tuple) else float(r)

        total_impl = total_ref = 0.0
        lengths = [1] * len(case.blocks)
        # chain lengths: sweep the first block fully (others at their modal length), then each other block
        modal = [max(1, int(ref.mean() // m)) for ref, m in zip(refs, masses)]
        sweeps = []
        for b in range(len(case.blocks)):
            for n in range(1, NMAX + 1):
                ns = list(modal)
                ns[b] = n
                sweeps.append((b, ns))
        seen = set()
        for b, ns in sweeps:
            if tuple(ns) in seen:
                continue
            seen.add(tuple(ns))
            pref = 1.0
            factors = []
            for ref, m, n in zip(refs, masses, ns):
                p, lo, hi = block_prob(ref, m, n)
                pref *= p
                factors.append((lo, hi))
            if pref == 0.0 and len(case.blocks) == 1 and case.blocks[0][0] == "uniform" and not case.probe and ns[0] in (1, 2, NMAX - 1, NMAX):
                # a chain whose block mass lies outside the BOUNDED support of the law (uniform only: for the other families a closed form of 0.0 is
                # floating-point underflow of a positive tail, not 'outside the support'): the generator never produces it -> outside the ensemble
                smi0 = case.build(ns)
                try:
                    p0 = query(smi0)
                except Exception:
                    p0 = 0.0
                records.append({"kind": "zero", "p": sc(p0), "tol": sc(1e-12)})
                meta.append((case, smi0, f"outside the ensemble (chain length {ns[0]} outside the support of the law): reported {p0}", {}))
            if pref < 1e-9:
                continue          # the statement quantifies over chain lengths with non-negligible mass
            smi = case.build(ns)
            ps = Chem.SmilesParserParams()
            ps.removeHs = False            # molecules capped with [H] tokens are queried with their explicit hydrogens
            rm = Chem.MolFromSmiles(smi, ps)
            if rm is None:
                raise MachineryError(f"cannot build {smi}")
            try:
                p_impl = query(smi)
            except Exception as exc:
                v.violation(key_of(case, f"raises:{type(exc).__name__}"), f"get_ensemble_prob({smi!r}, {case.text!r}) raises {type(exc).__name__}: {exc}", {"smiles": smi, "molecule": case.text})
                continue
            if len(case.blocks) == 1:
                total_impl += p_impl * case.startprob[1] / case.startprob[0]
                total_ref += pref
                records.append({"kind": "chain", "p": sc(p_impl), "snum": case.startprob[0], "sden": case.startprob[1], "Fa": sc(factors[0][0]), "Fb": sc(factors[0][1]),
                                "tol": sc(tolfam)})
                meta.append((case, smi, f"{ns[0]} units: reported {p_impl}, generation {pref}",
                             {"n": ns[0], "below0": refs[0].cdf(0.0) if not refs[0].discrete else 0.0, "p": p_impl, "pref": pref, "sp": case.startprob[0] / case.startprob[1], "tol": tolfam}))
            else:
                if abs(p_impl - pref) > tolfam + 1e-9:
                    v.violation(key_of(case, "chain-probability-differs"), f"{case.text}: {smi} ({ns} units): reported {p_impl}, product of block probabilities {pref}",
                                {"smiles": smi, "molecule": case.text})
            # atom order of the query must not matter
            if ns[b] in (2, 3):
                for k in range(3):
                    rs = Chem.MolToSmiles(rm, doRandom=True, canonical=False)
                    try:
                        p2 = query(rs)
                    except Exception as exc:
                        p2 = float("nan")
                    if not abs(p2 - p_impl) <= 1e-12 + 1e-9 * abs(p_impl):
                        v.violation(key_of(case, "depends-on-atom-order"), f"{case.text}: {smi} -> {p_impl} but the same molecule written {rs} -> {p2}", {"a": smi, "b": rs, "molecule": case.text})
                        break
            if len(samples) < 5 and ns[b] == modal[b]:
                samples.append({"molecule": case.text, "query": smi, "reported": p_impl, "closed_form": pref})
        if len(case.blocks) == 1 and total_ref > 1 - 1e-6 and not case.probe:
            records.append({"kind": "total", "total": sc(total_impl), "tol": sc(max(1e-6, 20 * tolfam))})
            meta.append((case, "", f"sum over chain lengths 1..{NMAX}: {total_impl}", {"total": total_impl, "below0": refs[0].cdf(0.0) if not refs[0].discrete else 0.0}))
        # molecules outside the ensemble
        ns = list(modal)
        inside = case.build(ns)
        outside = {"other-suffix": inside[:-4] + "[Ge]" if inside.endswith("[Si]") else inside + "Cl",
                   "extra-atom-in-unit": inside.replace(case.blocks[0][2], case.blocks[0][2] + "C", 1),
                   "truncated": inside[:-4] if inside.endswith("[Si]") else inside[:-1]}
        # a block that received no unit at all: generation puts at least one unit into every block
        for b in range(len(case.blocks)):
            ns0 = list(modal)
            ns0[b] = 0
            outside[f"block-{b + 1}-without-a-unit"] = case.build(ns0)
        for why, smi in outside.items():
            if Chem.MolFromSmiles(smi) is None:
                continue
            try:
                p = query(smi)
            except Exception as exc:
                p = 0.0
            records.append({"kind": "zero", "p": sc(p), "tol": sc(1e-12)})
            meta.append((case, smi, f"outside the ensemble ({why}): reported {p}", {}))
    # ---- the distribution of the generation machine itself (spec/GenerateProb.tla): reported probability = machine probability ----
    from . import genprob as GP
    mach_states = mach_mols = 0
    mach_samples = []
    for mc in machine_cases(tier):
        text = mc["mol"].text()
        try:
            mol = g.Molecule(text)
        except Exception as exc:
            raise MachineryError(f"{text}: {exc}")
        dist, covered, info = GP.machine_distribution(mc["mol"], mc["nmax"], tag="c19prob")
        if abs(sum(dist.values()) - covered) > 1e-9:
            raise MachineryError(f"{text}: machine distribution sums to {sum(dist.values())}, declared law covers {covered}")
        alt = GP.distribution(info["leaves"], info["blocks"], lower_tail=False)
        mach_states += info["states"]
        tol = max((3e-3 if b[2].__class__.__name__ == "SchulzZimm" else 2e-7) for b in info["blocks"])
        total_impl = 0.0
        for smi, p_spec in sorted(dist.items()):
            if p_spec < 1e-9:
                continue
            mach_mols += 1
            n_queries += 1
            try:
                r = g.get_ensemble_prob(smi, mol)
                p_impl = float(r[0]) if isinstance(r, tuple) else float(r)
            except Exception as exc:
                v.violation(f"C19:raises:{type(exc).__name__}@machine:{mc['name']}", f"get_ensemble_prob({smi!r}, {text!r}) raises {type(exc).__name__}: {exc}",
                            {"smiles": smi, "molecule": text})
                continue
            total_impl += p_impl
            if len(mach_samples) < 4 and p_spec > 0.2:
                mach_samples.append({"molecule": text, "query": smi, "machine_probability": p_spec, "reported": p_impl})
            if abs(p_impl - p_spec) <= tol + 1e-9:
                continue
            units = info["mols"][smi][0]
            what = f"{text}: {smi} (units per block {list(units)}): reported {p_impl}, the generation machine produces it with probability {p_spec}"
            known = mc["probe"](smi, units) if mc.get("probe") else None
            if known:
                v.violation(f"C19:{known}", what, {"smiles": smi, "molecule": text})
            elif 1 in units and abs(p_impl - alt[smi]) <= tol + 1e-9:
                v.violation("C19:mass-below-zero-missing-from-one-unit-chain", what + "; the difference is the law's mass at or below zero", {"smiles": smi, "molecule": text})
            else:
                v.violation(f"C19:reported-differs-from-machine-probability@{mc['name']}", what, {"smiles": smi, "molecule": text})
    failed, states = LC.validate(records, tag="c19")
    for idx, clauses in failed:
        case, smi, what, x = meta[idx]
        # cause: the reported value of a one-unit chain leaves out the law's mass below zero (which generation also turns into one-unit chains)
        if x.get("n") == 1 and x["below0"] > x["tol"] and abs(x["p"] - x["sp"] * (x["pref"] - x["below0"])) <= x["tol"] + 1e-9:
            v.violation("C19:mass-below-zero-missing-from-one-unit-chain", f"{case.text}: {smi}: {what}; the difference is the law's mass below zero, {x['below0']}",
                        {"smiles": smi, "molecule": case.text})
            continue
        if "total" in x and x["below0"] > 1e-6 and abs(x["total"] - (1 - x["below0"])) <= 1e-6 + 20 * 3e-3 * 0:
            v.violation("C19:mass-below-zero-missing-from-one-unit-chain", f"{case.text}: {what} = 1 - (mass below zero {x['below0']})", {"molecule": case.text})
            continue
        for c in clauses:
            why = what.split("(")[1].split(")")[0] if c == "probability-outside-ensemble-not-zero" else ""
            if why == "truncated":
                v.violation("C19:truncated-molecule-gets-probability", f"{case.text}: {smi}: {what}", {"smiles": smi, "molecule": case.text})
                continue
            v.violation(key_of(case, c + (":" + why if why else "")), f"{case.text}: {smi}: {what}", {"smiles": smi, "molecule": case.text})
    v.coverage = {"states": states + mach_states, "transitions": states + mach_states, "traces_validated_against_impl": n_queries, "queries": n_queries,
                  "records": len(records), "cases": len(make_cases(tier)), "samples": samples,
                  "machine_derived": {"module": "spec/GenerateProb.tla", "cases": len(machine_cases(tier)), "TLC_states": mach_states,
                                      "molecules_compared": mach_mols, "samples": mach_samples}}
    v.assumptions = ["closed form: start probability x product over blocks of F(M_n) - F(M_{n-1}) with the reference CDF (harness/refcdf.py) at the cumulative unit masses",
                     "single-block relations are evaluated by TLC (Law.tla, record kind 'chain'); products over several blocks are formed in Python (TLC's integers are 32 bit)",
                     "tolerance 2e-7 (3e-3 for Schulz-Zimm, which the implementation discretises)",
                     "a target at or below zero ends the block after its first unit (C07), so the generation probability of a one-unit chain is F(M_1), the lower tail included"]
    return v.finish()
