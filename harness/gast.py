"""Structured description (AST) of G-BigSMILES inputs, an independent printer, token chemistry via
RDKit (trusted base) and the translation into TLA+ instance constants.

Nothing here uses the library under test.  The meaning of a token (which atom a descriptor is attached to
and with which bond order) is *the SMILES semantics with the descriptor written as a labelled dummy
atom*, evaluated by RDKit - literally the reference semantics of property C02.
"""
import re
from dataclasses import dataclass, field
from fractions import Fraction
from math import gcd
from typing import List, Optional, Union

from rdkit import Chem
from rdkit.Chem import Descriptors as rdD

ORD = {"": 1, "-": 1, "=": 2, "#": 3, ":": 15}
RD_ORD = {Chem.BondType.SINGLE: 1, Chem.BondType.DOUBLE: 2, Chem.BondType.TRIPLE: 3, Chem.BondType.AROMATIC: 12,
          Chem.BondType.ONEANDAHALF: 15}


def frac(x):
    if x is None:
        return None
    if isinstance(x, Fraction):
        return x
    return Fraction(str(x))


def fmt_num(x: Fraction, style=0):
    """Decimal text of a weight; all weights used are finite decimals."""
    f = float(x)
    if style == 0:
        return repr(f) if f != int(f) else str(int(f))
    if style == 1:
        return repr(f)
    if style == 2:
        return (str(int(f)) + ".") if f == int(f) else repr(f)
    if style == 3:
        s = repr(f)
        return s[1:] if s.startswith("0.") else s
    if style == 4:
        return "%e" % f if f == float("%e" % f) else repr(f)
    return repr(f)


@dataclass
class Desc:
    sym: str                      # "$", "<", ">" ; "" only for terminals
    id: int = -1                  # -1 = none
    w: Optional[Fraction] = None  # scalar weight (None = not written = 1)
    tr: Optional[List[Fraction]] = None  # transition list
    implicit: bool = False        # not written: inserted by the notation's automatic descriptor insertion
    pre: str = ""                 # bond characters written in front of a TERMINAL descriptor ("=" / "#"), inherited by the descriptor that is
                                  # inserted automatically on the neighbouring token (inside tokens the bond character is part of the SMILES text)

    def weight(self):
        if self.tr is not None:
            return sum(self.tr, Fraction(0))
        return Fraction(1) if self.w is None else self.w

    def text(self, ext=True, style=0, ws=""):
        if self.sym == "":
            return "[]"
        s = self.pre + "[" + self.sym + ("" if self.id < 0 else str(self.id))
        if ext and self.tr is not None:
            s += "|" + ws + " ".join(fmt_num(t, style) for t in self.tr) + ws + "|"
        elif ext and self.w is not None:
            s += "|" + ws + fmt_num(self.w, style) + ws + "|"
        return s + "]"


_DESC_RE = re.compile(r"\[([$<>])(\d*)(?:\|([^|\]]*)\|)?\]|\[\]")


def parse_desc(text):
    """Reader of the AST's own compact notation (convenience for writing instances; not the library's parser)."""
    m = _DESC_RE.fullmatch(text)
    if not m:
        raise ValueError(text)
    if text == "[]":
        return Desc("")
    sym, i, w = m.group(1), m.group(2), m.group(3)
    d = Desc(sym, int(i) if i else -1)
    if w is not None:
        ws = w.split()
        if len(ws) == 1:
            d.w = frac(ws[0])
        else:
            d.tr = [frac(x) for x in ws]
    return d


@dataclass
class Token:
    items: list                  # str chunks of SMILES text and Desc objects, in writing order

    @staticmethod
    def of(text):
        items, pos = [], 0
        for m in _DESC_RE.finditer(text):
            if m.start() > pos:
                items.append(text[pos:m.start()])
            items.append(parse_desc(m.group(0)))
            pos = m.end()
        if pos < len(text):
            items.append(text[pos:])
        return Token(items)

    @property
    def descs(self):
        return [x for x in self.items if isinstance(x, Desc)]

    def text(self, ext=True, style=0, ws="", show_implicit=False):
        return "".join(x if isinstance(x, str) else ("" if (x.implicit and not show_implicit) else x.text(ext, style, ws))
                       for x in self.items)

    def dummy_smiles(self):
        out, k = "", 0
        for x in self.items:
            if isinstance(x, str):
                out += x
            else:
                k += 1
                out += x.pre + f"[{k}*]"
        return out

    def chem(self):
        """atoms, internal bonds, descriptor attachment (atom, order), heavy-atom mass in mDa."""
        if hasattr(self, "_chem"):
            return self._chem
        ps = Chem.SmilesParserParams()
        ps.removeHs = False
        m = Chem.MolFromSmiles(self.dummy_smiles(), ps)
        if m is None:
            raise ValueError(f"token {self.text()} is not valid SMILES with dummies: {self.dummy_smiles()}")
        # a hydrogen written explicitly on a heavy atom ("C([H])") is that atom's hydrogen, not an atom of its own (SMILES semantics);
        # a lone [H] token, a hydrogen that carries the descriptor, and isotope-labelled hydrogens stay atoms
        m = Chem.RemoveHs(m)
        n_d = len(self.descs)
        dummies = {}
        for a in m.GetAtoms():
            if a.GetAtomicNum() == 0 and a.GetIsotope() > 0:
                dummies[a.GetIsotope()] = a.GetIdx()
        if len(dummies) != n_d:
            raise ValueError("dummy count")
        real = [a.GetIdx() for a in m.GetAtoms() if a.GetIdx() not in dummies.values()]
        rank = {idx: r for r, idx in enumerate(real)}
        attach = []
        for k in range(1, n_d + 1):
            a = m.GetAtomWithIdx(dummies[k])
            nb = a.GetBonds()
            if len(nb) != 1:
                raise ValueError(f"descriptor {k} of {self.text()} bonds {len(nb)} atoms")
            b = nb[0]
            other = b.GetOtherAtomIdx(a.GetIdx())
            if other in dummies.values():
                raise ValueError("descriptor bonded to descriptor")
            attach.append((rank[other], RD_ORD[b.GetBondType()]))
        rw = Chem.RWMol(m)
        for idx in sorted(dummies.values(), reverse=True):
            rw.RemoveAtom(idx)
        frag = rw.GetMol()
        Chem.SanitizeMol(frag)
        atoms = []
        for a in frag.GetAtoms():
            atoms.append((a.GetAtomicNum(), a.GetFormalCharge(), a.GetIsotope(), int(a.GetIsAromatic()),
                          a.GetTotalNumHs(), int(a.GetNoImplicit())))
        ibonds = []
        for b in frag.GetBonds():
            i, j = sorted((b.GetBeginAtomIdx(), b.GetEndAtomIdx()))
            ibonds.append((i, j, RD_ORD[b.GetBondType()]))
        ibonds.sort()
        mass = int(round(rdD.HeavyAtomMolWt(frag) * 1000))
        self._chem = dict(atoms=atoms, ibonds=ibonds, attach=attach, mass=mass, frag=Chem.MolToSmiles(frag))
        return self._chem


@dataclass
class Dist:
    fam: str
    par: List[Union[int, float, str]]

    def text(self, style=0):
        return "|" + self.fam + "(" + ", ".join(str(p) for p in self.par) + ")|"


@dataclass
class Sto:
    left: Desc
    rep: List[Token]
    end: List[Token]
    right: Desc
    dist: Optional[Dist] = None

    def text(self, ext=True, style=0, ws=""):
        s = "{" + self.left.text(ext, style, ws) + ws
        s += ("," + ws).join(t.text(ext, style, ws) for t in self.rep)
        if self.end:
            s += ws + ";" + ws + ("," + ws).join(t.text(ext, style, ws) for t in self.end)
        s += ws + self.right.text(ext, style, ws) + "}"
        if ext and self.dist:
            s += self.dist.text(style)
        return s


@dataclass
class Mol:
    elems: List[Union[Token, Sto]]
    mix: Optional[str] = None     # mixture text ".|...|" or None
    name: str = ""

    def text(self, ext=True, style=0, ws=""):
        # (blanks also between the elements and in front of the mixture specifier)
        s = ws.join(e.text(ext, style, ws) for e in self.elems)
        if self.mix and ext:
            s += ws + self.mix
        return s

    def tokens(self):
        out = []
        for e in self.elems:
            if isinstance(e, Token):
                out.append(e)
            else:
                out += e.rep + e.end
        return out


def _terminal(text):
    """a terminal descriptor, optionally with bond characters in front: "=[$]" """
    pre = ""
    while text and text[0] in "=#":
        pre, text = pre + text[0], text[1:]
    d = parse_desc(text)
    d.pre = pre
    return d


def S(left, rep, end, right, dist=None):
    """Compact constructor: S("[<]", ["[<]CC[>]"], ["[<][H]"], "[>]", ("gauss", [40, 0]))."""
    return Sto(_terminal(left), [Token.of(t) for t in rep], [Token.of(t) for t in end], _terminal(right),
               Dist(dist[0], list(dist[1])) if dist else None)


def M(*parts, name=""):
    return Mol([Token.of(p) if isinstance(p, str) else p for p in parts], name=name)


# --------------------------------------------------------------------------------------------
# AST -> TLA+ instance constants
# --------------------------------------------------------------------------------------------
def weight_scale(mol: Mol):
    den = 1
    ws = []
    for t in mol.tokens():
        for d in t.descs:
            ws.append(d)
    for e in mol.elems:
        if isinstance(e, Sto):
            ws += [e.left, e.right]
    for d in ws:
        vals = ([d.w] if d.w is not None else []) + (d.tr or [])
        for v in vals:
            den = den * v.denominator // gcd(den, v.denominator)
    return den


def _desc_rec(d: Desc, scale, atom=None, ordr=1):
    r = {"sym": d.sym, "id": d.id, "ord": ordr, "w": int(d.weight() * scale),
         "tr": [int(t * scale) for t in d.tr] if d.tr is not None else []}
    if atom is not None:
        r["atom"] = atom + 1
    return r


def instance_constants(mol: Mol):
    """Returns (Elems, Tok) as Python structures ready for common.tla()."""
    scale = weight_scale(mol)
    toks = mol.tokens()
    index = {id(t): i + 1 for i, t in enumerate(toks)}
    Tok = []
    for t in toks:
        c = t.chem()
        descs = [_desc_rec(d, scale, a, o) for d, (a, o) in zip(t.descs, c["attach"])]
        Tok.append({"mass": c["mass"], "atoms": [list(a) for a in c["atoms"]],
                    "ibonds": [[i + 1, j + 1, o] for (i, j, o) in c["ibonds"]], "descs": descs})
    empty = _desc_rec(Desc(""), scale)
    Elems = []
    for e in mol.elems:
        if isinstance(e, Token):
            Elems.append({"kind": "tok", "tok": index[id(e)], "left": empty, "right": empty, "rep": [], "end": []})
        else:
            Elems.append({"kind": "sto", "tok": 0, "left": _desc_rec(e.left, scale), "right": _desc_rec(e.right, scale),
                          "rep": [index[id(t)] for t in e.rep], "end": [index[id(t)] for t in e.end]})
    return Elems, Tok
