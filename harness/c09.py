"""C09 - block sizes follow the declared molecular-weight distribution: decided at the generator interface by a quantile sweep."""
import math
import random
import signal

from . import common, refcdf as R, lawcheck as LC, explore as X
from .common import Verdict, MachineryError
from .lawcheck import sc, S
from .rng import ScriptedRNG, RecordingRNG

UNIT = {"CC": 24.022, "CO": 28.010, "C(C)C": 36.033, "[13CH2][13CH2]": 26.00671, "C[18OH0]": 30.0102}   # heavy-atom masses; isotope labels count


class Timeout(Exception):
    pass


def _alarm(s, f):
    raise Timeout()


def cases(tier):
    d = {
        "gauss": [(150, 40), (60, 15), (30, 60), (100, 30)], "uniform": [(20, 200), (100, 130)], "schulz_zimm": [(260, 200), (150, 100)],
        # (gauss(100, 30) and uniform(100, 130): the same loc / scale in two families)
        "log_normal": [(120, 1.3), (80, 1.05)], "poisson": [(100,), (40,)], "flory_schulz": [(0.02,), (0.05,)],
    }
    if tier == "thorough":
        d["gauss"] += [(400, 10), (10, 100)]
        d["uniform"] += [(0, 50)]
        d["schulz_zimm"] += [(700, 650)]
        d["log_normal"] += [(300, 2.0)]
        d["poisson"] += [(250,)]
        d["flory_schulz"] += [(0.01,)]
    out = []
    for fam, pl in d.items():
        for par in pl:
            out.append(("single", [(fam, par, "CC")]))
        # two blocks of the same family with different parameters, and with another family
        out.append(("double", [(fam, pl[0], "CC"), (fam, pl[1], "CO")]))
    fams = list(d)
    for i, fam in enumerate(fams):
        other = fams[(i + 2) % len(fams)]
        out.append(("double", [(fam, d[fam][0], "CC"), (other, d[other][0], "CO")]))
    # isotope-labelled units: the mass that counts is the mass of the atoms as written
    out.append(("single", [("gauss", (300, 60), "[13CH2][13CH2]")]))
    out.append(("double", [("uniform", (50, 400), "C[18OH0]"), ("log_normal", (200, 1.2), "[13CH2][13CH2]")]))
    out.append(("endstart", [("gauss", (120, 30), "C(C)C")]))
    out.append(("endstart", [("log_normal", (100, 1.2), "C(C)C")]))
    # starting end groups of different mass, chosen in turn on the SAME object: the start group's mass never counts in the block
    out.append(("endstart2", [("gauss", (120, 30), "C(C)C")]))
    out.append(("endstart2", [("uniform", (60, 300), "CC")]))
    return out


def dist_text(fam, par):
    return f"|{fam}({', '.join(str(p) for p in par)})|"


def molecule_text(kind, blocks):
    if kind == "single":
        (fam, par, u), = blocks
        return f"C[>]{{[>][<]{u}[>][<]}}{dist_text(fam, par)}[<]N"
    if kind == "double":
        (f1, p1, u1), (f2, p2, u2) = blocks
        return f"C[>]{{[>][<]{u1}[>][<]}}{dist_text(f1, p1)}{{[>][<]{u2}[>][<]}}{dist_text(f2, p2)}[<]N"
    (fam, par, u), = blocks
    if kind == "endstart2":
        return f"{{[][<]{u}[>];[<][H],[<]Br,[>][H][]}}{dist_text(fam, par)}"
    return f"{{[][<]{u}[>];[<][H],[>][H][]}}{dist_text(fam, par)}"


def script_value(fam, ref, u):
    """what the scripted generator answers so that the draw happens at quantile u - whichever way the code asks (uniform(), standard_normal(),
    poisson(lam) for the Poisson law) -, and the reference target"""
    ans = {"uniform": u, "random": u, "standard_normal": R.phi_inv(u)}
    if fam == "gauss":
        return ans, ref.mu + ref.sigma * R.phi_inv(u)
    if fam == "poisson":
        k = ref.quantile(u)
        ans["poisson"] = k
        return ans, float(k)
    return ans, ref.quantile(u)


def run(tier):
    g = common.import_repo()
    X.Tap.install(g)
    v = Verdict("C09", tier)
    signal.signal(signal.SIGALRM, _alarm)
    Q = 41 if tier == "quick" else 199
    records, meta = [], []
    skipped_edge = skipped_draw = runs = 0
    samples = []
    for kind, blocks in cases(tier):
        text = molecule_text(kind, blocks)
        try:
            mol = g.Molecule(text)
        except Exception as exc:
            raise MachineryError(f"{text}: {exc}")
        refs = [R.law(f, p) for f, p, _ in blocks]
        masses = [UNIT[u] for _, _, u in blocks]
        def table_at(ref, m, k):
            """the declared law's cumulative value at the mass of k units"""
            if k <= 0:
                return -S
            x = math.floor(k * m + 1e-9) if ref.discrete else k * m
            return sc(ref.cdf(x))
        grid = [(i + 0.5) / Q for i in range(Q)]
        sweeps = []
        if len(blocks) == 1:
            sweeps = [[u] for u in grid]
        else:
            sweeps = [[u, 0.37] for u in grid] + [[0.61, u] for u in grid[:: 2]]
        for i_sweep, us in enumerate(sweeps):
            vals, targets = [], []
            for (fam, par, _), ref, u in zip(blocks, refs, us):
                a, t = script_value(fam, ref, u)
                vals.append(a)
                targets.append(t)
            rng = ScriptedRNG([i_sweep % 2] if kind == "endstart2" else [], qseq=vals)
            X.Tap.current = rng
            try:
                signal.alarm(180)
                mg = mol.generate(rng=rng)
                signal.alarm(0)
            except Timeout:
                skipped_draw += 1
                X.Tap.current = None
                continue
            except RuntimeError as exc:
                signal.alarm(0)
                X.Tap.current = None
                if "updating stopped" in str(exc):
                    skipped_draw += 1      # scipy's discrete quantile search (C11's known finding)
                    continue
                v.violation(f"C09:generation-raises:{blocks[0][0]}", f"{text} at quantiles {us}: {type(exc).__name__}: {exc}", {"text": text, "u": us})
                continue
            finally:
                X.Tap.current = None
            runs += 1
            draws = [e for e in rng.events if e["kind"] == "draw"]
            if len(draws) != len(blocks):
                v.violation("C09:not-one-draw-per-object", f"{text}: {len(draws)} draws for {len(blocks)} stochastic objects", {"text": text})
                continue
            for e in rng.events:
                if e["kind"] == "q" and e["fn"] == "poisson":
                    want = [r.N for (f, _, _), r in zip(blocks, refs) if f == "poisson"]
                    if not any(abs(e["args"][0] - w) < 1e-9 for w in want):
                        v.violation("C09:poisson-mean-not-declared", f"{text}: Poisson variate requested with lam={e['args'][0]}, declared {want}", {"text": text})
            # observed units per block
            frags = [mg.graph.nodes[n]["smiles"] for n in sorted(mg.graph.nodes)]
            for b, ((fam, par, unit), ref, m, u, t) in enumerate(zip(blocks, refs, masses, us, targets)):
                n_obs = sum(1 for f in frags if f == unit)
                # near an edge of a bin the discretisation of the implementation (or float noise) may legitimately decide either way
                delta = 1.6 if fam == "schulz_zimm" else 1e-6
                if t >= 0 and abs(t - round(t / m) * m) < delta:
                    skipped_edge += 1
                    continue
                uu = u
                records.append({"kind": "block", "u": sc(uu), "n": int(n_obs), "lo": table_at(ref, m, n_obs - 1), "hi": table_at(ref, m, n_obs), "tol": 0})
                meta.append((text, b, fam, par, u, t, n_obs, draws[b]["val"]))
                if len(samples) < 5 and b == 0 and abs(u - 0.5) < 0.02:
                    samples.append({"molecule": text, "quantile": u, "reference_target": t, "drawn": draws[b]["val"], "units": n_obs})
    failed, states = LC.validate(records, tag="c09")
    for idx, clauses in failed:
        text, b, fam, par, u, t, n_obs, drawn = meta[idx]
        two = "second-block" if b == 1 else "first-block"
        v.violation(f"C09:block-length-not-from-declared-law:{fam}:{two}",
                    f"{text}: block {b + 1} ({fam}{par}) at quantile {u}: {n_obs} units generated (drawn target {drawn}); the declared law puts the target at {t:.3f} "
                    f"which lies in another bin of cumulative unit masses", {"text": text, "u": u})
    v.coverage = {"states": states, "transitions": states, "traces_validated_against_impl": runs, "block_records": len(records), "cases": len(cases(tier)),
                  "quantiles": Q, "skipped_near_bin_edge": skipped_edge, "skipped_because_draw_failed": skipped_draw, "samples": samples}
    v.assumptions = ["decided deterministically at the generator interface: the scripted generator answers uniform() with the quantile u (standard_normal() with the matching z, "
                     "poisson(lam) with the reference quantile after checking lam), the block must then stop in the bin F(M_{n-1}) <= u < F(M_n) of the DECLARED law with the documented parameter roles",
                     "CDF tables come from harness/refcdf.py; quantiles closer than 1e-6 Da (1.6 Da for the discretised Schulz-Zimm law) to a bin edge are skipped and counted",
                     "goodness-of-fit on real random streams is not part of this check (the quantile sweep covers the law exhaustively on its grid)"]
    return v.finish()
