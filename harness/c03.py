"""C03 - compatibility is exactly the conjugation rule.

The universe is enumerated by TLC (spec/CompatCheck.tla); the implementation's relation is recorded
here for the same universe, three ways, and handed to TLC row by row.
"""
import json
import os
import re

from . import common
from .common import Verdict, Scratch, run_tlc, MachineryError

SYMS = ["$", "<", ">"]
IDS = [-1] + list(range(13))
PRES = ["", "-", "=", "#", ":"]
WFS = {"none": "", "scalar": "|2.5|", "list": "|1 0.5 3|", "zero": "|0|", "zlist": "|0 0 0|"}


def key(sym, i, pre, wf):
    return f"{sym}/{i}/{pre}/{wf}"


def universe():
    u = []
    for s in SYMS:
        for i in IDS:
            for p in PRES:
                for wf in WFS:
                    u.append((s, i, p, wf))
    for p in PRES:
        u.append(("", -1, p, "none"))
    return u


def text(sym, i, wf):
    if sym == "":
        return "[]"
    return "[" + sym + ("" if i < 0 else str(i)) + WFS[wf] + "]"


def run(tier):
    g = common.import_repo()
    from gbigsmiles.core import get_compatible_bond_descriptor_ids

    v = Verdict("C03", tier)
    U = universe()
    direct, token = {}, {}
    how_empty = "constructor"
    for (s, i, p, wf) in U:
        k = key(s, i, p, wf)
        t = text(s, i, wf)
        direct[k] = g.BondDescriptor(t, 0, p, None if s == "" else 0)
        if s == "":
            # the notation only allows [] as a terminal: take it from a parsed stochastic object
            try:
                st = g.Stochastic("{[][$]CC[$]; [$][H]" + p + "[]}", 0)
                token[k] = st.right_terminal if p else st.left_terminal
                how_empty = "terminal of a parsed stochastic object"
            except Exception:
                token[k] = g.BondDescriptor(t, 0, p, None)
        else:
            tok = g.SmilesToken("C" + p + t, 0, 0)
            if len(tok.bond_descriptors) != 1:
                raise MachineryError(f"token C{p}{t} has {len(tok.bond_descriptors)} descriptors")
            token[k] = tok.bond_descriptors[0]
    keys = [key(*u) for u in U]
    rel = {"direct_direct": {}, "token_token": {}, "direct_token": {}, "token_direct": {}, "filter": {}}
    calls = 0
    for a in keys:
        rel["direct_direct"][a] = [b for b in keys if direct[a].is_compatible(direct[b])]
        rel["token_token"][a] = [b for b in keys if token[a].is_compatible(token[b])]
        rel["direct_token"][a] = [b for b in keys if direct[a].is_compatible(token[b])]
        rel["token_direct"][a] = [b for b in keys if token[a].is_compatible(direct[b])]
        calls += 4 * len(keys)
    lst = [token[k] for k in keys]
    for a in keys:
        idx = get_compatible_bond_descriptor_ids(lst, token[a])
        rel["filter"][a] = [keys[int(j)] for j in idx]
    calls += len(keys)
    # the filter with bond None means "all"
    none_all = list(get_compatible_bond_descriptor_ids(lst, None)) == list(range(len(lst)))
    if not none_all:
        v.violation("C03:filter-none-not-all", "get_compatible_bond_descriptor_ids(list, None) does not return every index")

    with Scratch("c03") as d:
        tf = os.path.join(d, "impl.json")
        with open(tf, "w") as f:
            json.dump({"rel": rel, "names": list(rel.keys())}, f)
        cfg = os.path.join(d, "CompatCheck.cfg")
        with open(cfg, "w") as f:
            f.write("SPECIFICATION Spec\nINVARIANT Symmetric\nINVARIANT EmptyBondsNothing\n"
                    "INVARIANT WeightIndependent\nINVARIANT IffStatement\nINVARIANT NonVacuous\n"
                    "INVARIANT Conformance\nINVARIANT Covered\n")
        with open(os.path.join(d, "MC.tla"), "w") as f:
            f.write("---- MODULE MC ----\nEXTENDS CompatCheck\n====\n")
        r = run_tlc(d, "MC", cfg=cfg, workers=1, env={"TRACE_FILE": tf}, timeout=600)
    if not r.ok:
        inv = r.invariant_violated()
        if inv in ("Symmetric", "EmptyBondsNothing", "WeightIndependent", "IffStatement", "NonVacuous"):
            v.violation(f"C03:model-theorem-{inv}", f"the specification itself violates {inv}\n" + r.tail())
        else:
            print("\n".join(l for l in r.out.splitlines() if not re.match(r"^(State \d+:|i = \d+|\s*$)", l))[-3000:])
            raise MachineryError("TLC did not complete on CompatCheck")
    # the same theorems for EVERY id and bond order: the proof system on spec/proofs/CompatProofs.tla
    n_proved, _, t_proofs = common.run_tlapm("CompatProofs")
    if n_proved < 4:
        raise MachineryError(f"CompatProofs: {n_proved} obligations, expected at least 4")
    stats = {}
    for rec in r.printed:
        if "universe" in rec:
            stats = rec
            continue
        for kind in ("missing", "extra"):
            for other in rec.get(kind, []):
                a, b = rec["d"], other
                what = (f"{rec['rel']}: is_compatible({a}, {b}) is {'False' if kind == 'missing' else 'True'} "
                        f"but the conjugation rule says {'True' if kind == 'missing' else 'False'}")
                # class signature: relation kind + symbols + whether ids / orders agree
                sa, ia, pa, _ = a.split("/")
                sb, ib, pb, _ = b.split("/")
                sig = f"C03:{kind}:{sa or 'empty'}~{sb or 'empty'}:id{'=' if ia == ib else '#'}:pre[{pa}][{pb}]"
                v.violation(sig, what, {"a": a, "b": b, "relation": rec["rel"]})
    if not stats:
        raise MachineryError("TLC did not report the universe size")
    if stats["universe"] != len(U):
        raise MachineryError(f"universe mismatch TLC {stats['universe']} vs harness {len(U)}")
    v.coverage = {
        "states": r.distinct, "transitions": r.generated,
        "traces_validated_against_impl": 5 * len(U),
        "exhaustive": True,
        "universe": stats["universe"], "ordered_pairs": stats["pairs"],
        "compatible_pairs_in_model": stats["compatible_pairs"],
        "implementation_calls": calls,
        "relations_recorded": list(rel.keys()),
        "samples": [{"d": keys[7], "compatible_with_impl": rel["token_token"][keys[7]]},
                    {"d": keys[-1], "compatible_with_impl": rel["token_token"][keys[-1]]},
                    {"d": keys[300], "compatible_with_impl": rel["direct_token"][keys[300]]}],
        "model_theorems": ["Symmetric", "EmptyBondsNothing", "WeightIndependent", "IffStatement", "NonVacuous"],
        "unbounded_proofs": {"module": "spec/proofs/CompatProofs.tla", "tool": "tlapm (TLAPS)", "obligations_proved": n_proved, "seconds": round(t_proofs, 2),
                             "theorems": ["Symmetric", "EmptyBondsNothing", "IffStatement", "WeightIndependent"], "domain": "id in Int, ord in Nat"},
    }
    v.assumptions = [
        "the empty descriptor [] cannot carry id or weight (the constructor rejects '[1]'), so it appears with the five prefixes only: "
        "universe = 3*14*5*5 + 5 = 1055 descriptors (weight forms: none, scalar, list, zero, all-zero list), 1 113 025 ordered pairs, all enumerated",
        f"empty descriptors in the token-built relation come from: {how_empty}",
        "the prefix ':' is read as bond order 1.5, '-' and none as 1 (as the code and SMILES do)",
    ]
    return v.finish()
