"""Checks C04, C05, C06, C07, C08: the generation machine.

Two halves per run:
  (1) design: TLC model-checks spec/GenerateMC.tla on instances (all choice sequences x target grid) with the
      invariants / action property / liveness that state the property;
  (2) conformance: the implementation's complete choice tree (bounded instances) and recorded random streams
      (large instances) are validated node by node by TLC against spec/Generate.tla (GenerateTrace.tla).
A violation is reported for property P only if a failing clause is a clause of P's statement.
"""
import os
import random
import time
from concurrent.futures import ProcessPoolExecutor

from . import common, gencheck as G, instances as I
from .common import Verdict, MachineryError
from .gast import Mol

PROP_INVARIANTS = {
    "C04": ["IBonds"],
    "C05": ["ITree"],
    "C06": ["IOrder", "IClosed", "ITree"],
    "C07": ["IStop"],
    "C08": ["ILaw"],
}


def _init_worker():
    global _g
    _g = common.import_repo()


def _work(item):
    mol, mode, params = item
    g = common.import_repo()
    t0 = time.time()
    try:
        if mode == "tree":
            res, tree = G.explore_and_validate(mol, g, max_nodes=params.get("max_nodes", 3000),
                                               max_seconds=params.get("max_seconds", 25), qgrid=params.get("qgrid"),
                                               tag="tree")
        elif mode == "sto-entry":
            res, tree = G.explore_and_validate(mol, g, max_nodes=params.get("max_nodes", 3000),
                                               max_seconds=params.get("max_seconds", 25), tag="stoentry", entry="Stochastic")
        elif mode == "stage":
            res, tree = G.explore_and_validate(mol, g, max_nodes=params.get("max_nodes", 3000),
                                               max_seconds=params.get("max_seconds", 25), tag="stage", call=G.stagewise)
        elif mode == "random":
            res, tree = G.validate_random_runs(mol, g, params["seeds"], tag="rand")
        elif mode == "replay":
            # specification -> code: TLC generates the schedules (decisions and targets), the code is stepped through them, GenerateTrace judges
            behs, rt = G.export_behaviours(mol, I._sto_targets(mol, params.get("K", 1)), tag="mch", timeout=params.get("timeout", 60))
            behs = [b for b in behs if b["positive"]]
            cap = params.get("cap", 80)
            if len(behs) > cap:
                step = len(behs) / cap
                behs = [behs[int(i * step)] for i in range(cap)]
            if params.get("simulate"):
                big = {i: [400000, 900000] for i in range(1, len(mol.elems) + 1)}
                deep, _ = G.export_behaviours(mol, big, tag="mchsim", timeout=params.get("timeout", 60) * 3, simulate=params["simulate"])
                behs += [b for b in deep if b["positive"]][: params.get("cap_deep", 40)]
            if not behs:
                raise RuntimeError("TLC exported no behaviour of GenerateMCH: " + rt.tail(5))
            res, tree = G.replay_behaviours(mol, g, behs, tag="replay")
        else:
            raise ValueError(mode)
    except Exception as exc:  # machinery problem inside a worker
        import traceback
        return {"name": mol.name, "text": mol.text(), "machinery": traceback.format_exc()[-1500:]}
    out = {"name": mol.name, "text": mol.text(), "mode": mode, "nodes": res.nodes, "reached": res.reached, "paths": res.paths,
           "truncated": res.truncated, "error": res.error, "tlc_tail": getattr(res, "tlc_tail", ""),
           "census": res.census, "states": res.states, "wall": time.time() - t0, "diags": [], "outcomes": {},
           "nondeterminism": res.nondeterminism[:3]}
    for l in res.leaves:
        k = f"{l['pc']}:{l['err']}:{'closed' if l['closed'] else 'open'}"
        out["outcomes"][k] = out["outcomes"].get(k, 0) + 1
    # A forced pick (one candidate) after a unit can look like the branch not taken of the stop comparison.  The counterfactual only
    # explains a divergence if the implementation then goes on as that branch does: if the very next event fails as well, the
    # explanation is refuted and the divergence is charged to the clauses that failed (selection law, candidates).
    if tree is not None:
        bad_nodes = {d.get("node", -1) for d in res.diags}
        for d in res.diags:
            n = d.get("node", -1)
            if "stop-rule-counterfactual-explains" in d["failed"] and n > 0:
                kids = tree.nodes[n - 1]["kids"]
                if kids and all(k in bad_nodes for k in kids):
                    d["failed"] = [c for c in d["failed"] if c != "stop-rule-counterfactual-explains"] + ["counterfactual-refuted-by-next-event"]
    for d in res.diags[:200]:
        n = d.get("node", -1)
        node = tree.nodes[n - 1] if tree is not None and n > 0 else {"ev": {}, "obs": {}}
        ev = dict(node["ev"])
        obs = {k: v for k, v in node["obs"].items() if k in ("kind", "smiles", "exc", "msg", "full", "mass", "open")}
        # path (script) to the node, for replay
        out["diags"].append({"node": n, "at": d.get("at"), "failed": sorted(d["failed"]), "pc": d.get("pc"), "err": d.get("err"),
                             "spec_cand": d.get("cand"), "spec_law": d.get("law"), "ev": ev, "obs": obs,
                             "path": _path_to(tree, n) if tree is not None and n > 0 else []})
    # a law of zero width has one value: what its draw returns (the observation point of C07) is the written parameter
    if tree is not None and mode != "replay":      # (in replay mode the harness answers the draws itself, with the targets of the TLC behaviour)
        stos = [e for e in mol.elems if not isinstance(e, I.Token)]
        degenerate = all(e.dist is not None and e.dist.fam == "gauss" and float(e.dist.par[1]) == 0.0 for e in stos)
        if degenerate and stos:
            stack = [(0, 0)]
            while stack:
                i, nd_draws = stack.pop()
                for k in tree.nodes[i]["kids"]:
                    ev = tree.nodes[k - 1]["ev"]
                    c = nd_draws
                    if ev["kind"] == "draw":
                        if c < len(stos):
                            want = float(stos[c].dist.par[0])
                            if abs(ev["val"] - want) > 1e-9 * max(1.0, abs(want)) and len(out["diags"]) < 200:
                                out["diags"].append({"node": k, "at": "event", "failed": ["drawn-target-not-the-value-of-a-zero-width-law"], "pc": "draw", "err": "",
                                                     "spec_cand": None, "spec_law": None, "ev": dict(ev), "obs": {"want": want, "got": ev["val"]},
                                                     "path": _path_to(tree, k)})
                                res.diags.append({"node": k})
                        c += 1
                    stack.append((k - 1, c))
    out["n_diags"] = len(res.diags)
    if tree is not None:
        # exact probability mass of the explored tree (C08): sum over leaves of the product of recorded step probabilities
        out["prob_mass"] = _prob_mass(tree) if mode == "tree" and not res.truncated else None
    return out


def _path_to(tree, n):
    parent = {}
    for i, nd in enumerate(tree.nodes):
        for k in nd["kids"]:
            parent[k] = i + 1
    path = []
    cur = n
    while cur in parent:
        ev = tree.nodes[cur - 1]["ev"]
        if ev["kind"] == "choice":
            path.append(ev["k"])
        elif ev["kind"] == "draw" and ev.get("u", -1) != -1:
            path.append(ev["u"])
        cur = parent[cur]
    return list(reversed(path))


def _prob_mass(tree):
    from fractions import Fraction
    total = Fraction(0)
    stack = [(0, Fraction(1))]
    while stack:
        i, p = stack.pop()
        nd = tree.nodes[i]
        if not nd["kids"]:
            total += p
            continue
        for k in nd["kids"]:
            ev = tree.nodes[k - 1]["ev"]
            q = p
            if ev["kind"] == "choice":
                n, d = ev["p"][ev["k"]]
                q = p * Fraction(n, d) if d > 0 and n >= 0 else Fraction(0)
            stack.append((k - 1, q))
    return [total.numerator, total.denominator]


def _diag_props(d):
    """Properties whose statement contains a clause that fails in diagnostic d."""
    failed = d["failed"]
    if "stop-rule-counterfactual-explains" in failed:
        return {"C07"}, "stop-rule"
    props = set()
    names = []
    for c in failed:
        name = c.split(":")[0]
        names.append(name)
        if name == "candidates":
            spec = set(d.get("spec_cand") or [])
            impl = set(x + 1 for x in (d["ev"].get("a") or []))
            props |= {"C08"}
            if impl - spec:
                props |= {"C04"}   # a descriptor the rule excludes may be bonded
        elif name == "error-not-expected" and any(x in str(d.get("obs", {}).get("exc", "")) for x in
                                                  ("Valence", "Kekulize", "Sanit")):
            props |= {"C05"}       # refused for a chemical reason: the assembled molecule is not what the tokens denote
        else:
            props |= G.clause_props(c, d)
    return props, "+".join(sorted(set(names)))


def build_items(prop, tier, rnd):
    items = []
    core = I.core_instances() + I.negative_instances() + I.extra_instances()
    big = dict(max_nodes=4000, max_seconds=25) if tier == "quick" else dict(max_nodes=40000, max_seconds=240)
    for m in core:
        items.append((m, "tree", big))
    # the README's other entry point: a molecule that is a single stochastic object generated through Stochastic(text, 0)
    for m in core:
        if len(m.elems) == 1 and not isinstance(m.elems[0], I.Token) and not m.name.startswith("neg"):
            items.append((m, "sto-entry", dict(max_nodes=1500, max_seconds=12)))
    n_rand = 24 if tier == "quick" else 160
    for k in range(n_rand):
        items.append((I.random_instance(rnd, "small"), "tree", big))
    # property specific families
    if prop == "C07":
        for m in I.stop_rule_instances(tier):
            items.append((m, "tree", big))
    if prop in ("C05", "C06"):
        for m in I.chem_instances(tier):
            items.append((m, "tree", big))
    if prop == "C05":
        # the same molecules built element by element through the public API, intermediate results read in between
        for m in core:
            if len(m.elems) >= 2 and not m.name.startswith("neg"):
                items.append((m, "stage", dict(max_nodes=600, max_seconds=10)))
    # specification -> code: behaviours TLC generates from GenerateMCH replayed into the code
    for m in core:
        items.append((m, "replay", dict(K=1, cap=80, timeout=60) if tier == "quick" else dict(K=3, cap=1500, timeout=400, simulate=(40, 3000), cap_deep=40)))
    # recorded random streams on long variants of the hand-written instances
    n_s = 3 if tier == "quick" else 12
    for m in I.core_instances() + I.extra_instances():
        if any(not isinstance(e, I.Token) for e in m.elems) and not m.name.startswith(("negative", "plain")):
            items.append((I.scaled(m), "random", {"seeds": [rnd.randrange(2 ** 31) for _ in range(n_s)]}))
    # long random-stream runs (hundreds of units)
    n_long = 3 if tier == "quick" else 12
    n_seeds = 6 if tier == "quick" else 25
    for k in range(n_long):
        m = I.random_instance(rnd, "large")
        items.append((m, "random", {"seeds": [rnd.randrange(2 ** 31) for _ in range(n_seeds)]}))
    return items


def run(prop, tier):
    v = Verdict(prop, tier)
    rnd = random.Random(common.seed() * 7919 + 17)
    items = build_items(prop, tier, rnd)
    workers = min(14, os.cpu_count() or 4)
    t0 = time.time()
    with ProcessPoolExecutor(max_workers=workers) as ex:
        results = list(ex.map(_work, items, chunksize=1))
    conf_wall = time.time() - t0

    # ---- (1) design-level model checking ----
    mc_results = []
    mc_states = mc_trans = 0
    mc_cov = {}
    mc_items = I.mc_instances(prop, tier)

    def mc_one(it):
        mol, targets, expect_wellposed = it
        invs = list(PROP_INVARIANTS[prop])
        if prop == "C06" and expect_wellposed:
            invs.append("WellPosed")
        return G.model_check(mol, targets, invs, liveness=(prop == "C06"), tag="mc", workers=2, refine=(prop == "C07"))

    for it, r in zip(mc_items, G.parallel(mc_one, mc_items, workers=6)):
        mol = it[0]
        mc_results.append({"name": mol.name, "text": mol.text(), "states": r["states"], "distinct": r["distinct"],
                           "depth": r["depth"], "ok": r["ok"], "violated": r["violated"], "coverage": r["coverage"]})
        mc_states += r["distinct"]
        mc_trans += r["states"]
        for k, (d, t) in r["coverage"].items():
            mc_cov[k] = mc_cov.get(k, 0) + t
        if not r["ok"]:
            if r["violated"]:
                v.violation(f"{prop}:model:{r['violated']}@{mol.name}",
                            f"the specification's generation machine violates {r['violated']} on {mol.text()}\n{r['tail']}",
                            {"instance": mol.text(), "targets": it[1]})
            else:
                print(r["tail"])
                raise MachineryError(f"TLC failed on model instance {mol.name}")

    # thorough tier: random behaviours of the machine for LARGE targets (TLC simulation mode; the exhaustive model no longer finishes there)
    if tier == "thorough":
        big = [I.scaled(m, factor=12) for m in I.core_instances() + I.extra_instances()
               if any(not isinstance(e, I.Token) for e in m.elems) and not m.name.startswith(("negative", "plain", "neg"))][:24]

        def sim_one(m):
            tg = {i: [int(round(float(e.dist.par[0]) * 1000))] for i, e in enumerate(m.elems, 1) if not isinstance(e, I.Token)}
            invs = list(PROP_INVARIANTS[prop])
            if "IClosed" in invs:
                # "no open descriptor is left" is stated for molecules whose outer ends are closed: the closability analysis (GenerateTypes) says
                # which instances those are (open-end, hand-over into a suffix with several descriptors ... are not)
                wp, _errs, _n, closed = G.closability(m, tag="simtypes")
                if not (wp and closed):
                    invs.remove("IClosed")
            return G.model_check(m, tg, invs, liveness=False, tag="sim", workers=1, simulate=(60, 600), timeout=900)
        for m, r in zip(big, G.parallel(sim_one, big, workers=8)):
            mc_states += r["states"]
            mc_trans += r["states"]
            if not r["ok"]:
                if r["violated"]:
                    v.violation(f"{prop}:model-simulation:{r['violated']}@{m.name}", f"the specification violates {r['violated']} on a random behaviour of {m.text()}\n{r['tail']}", {"instance": m.text()})
                else:
                    print(r["tail"])
                    raise MachineryError(f"TLC simulation failed on {m.name}")
        mc_results.append({"name": "simulation-mode", "instances": len(big), "behaviours_each": 60, "max_depth": 600})

    if prop == "C07":
        # the abstract machine every instance above was checked to implement: its theorem for ALL masses and targets (proof system)
        n_proved, _, t_pr = common.run_tlapm("FirstCrossingProofs")
        mc_results.append({"name": "unbounded-proof", "module": "spec/proofs/FirstCrossingProofs.tla", "tool": "tlapm (TLAPS)", "obligations_proved": n_proved,
                           "seconds": round(t_pr, 2), "theorem": "Spec => []StoppedAtFirstCrossing",
                           "bound_to_the_machine_by": "PROPERTY ImplementsFirstCrossing of spec/GenerateRefinesFC.tla, checked by TLC on every model instance"})
        # the same inductive invariant discharged by a second, independent engine (symbolic, SMT): holds initially, preserved by every step
        t_apa = common.apalache_first_crossing(strict=True)
        mc_results.append({"name": "inductive-invariant-symbolic", "module": "spec/apalache/FirstCrossingApa.tla", "tool": "apalache-mc 0.58 (z3)", "seconds": t_apa,
                           "checked": "Init => IndInv (length 0); IndInv /\\ Next => IndInv' (length 1), Strict = TRUE, all integer amounts and limits, history of up to 4 records"})

    # ---- (2) conformance ----
    census = {}
    tot_nodes = tot_paths = tot_states = 0
    unexamined = 0
    samples = []
    other_props = {}
    for r in results:
        if "machinery" in r:
            print(r["machinery"])
            raise MachineryError(f"worker failed on {r['name']}: {r['text']}")
        if r["error"] == "tlc-failed":
            print(r["tlc_tail"])
            raise MachineryError(f"TLC failed on the trace tree of {r['name']}: {r['text']}")
        if r["error"] == "parse-failed":
            # the library refuses a string printed from a valid structured description: a parsing matter (C01/C02), not ours
            other_props.setdefault("parse-refused", []).append(r["text"] + " :: " + r["tlc_tail"])
            continue
        tot_nodes += r["reached"]
        tot_paths += r["paths"]
        tot_states += r["states"]
        for k, n in r["census"].items():
            census[k] = census.get(k, 0) + n
        if len(samples) < 6 and r["paths"] > 1:
            samples.append({"instance": r["text"], "mode": r["mode"], "tree_nodes": r["nodes"], "paths": r["paths"],
                            "outcomes": r["outcomes"]})
        if r["nondeterminism"] and prop in ("C08",):
            pass
        unexamined += r["nodes"] - r["reached"]
        for d in r["diags"]:
            props, cname = _diag_props(d)
            if prop in props:
                what = (f"instance {r['text']} ({r['mode']}): at tree node {d['node']} ({d['at']}) the implementation is not a behaviour of the "
                        f"specification: failed clauses {d['failed']}; model pc={d['pc']} err={d['err']}; "
                        f"event={ {k: d['ev'].get(k) for k in ('kind', 'a', 'p', 'k', 't')} }; model candidates={d.get('spec_cand')} "
                        f"law={d.get('spec_law')}; observation={d['obs']}")
                v.violation(f"{prop}:{cname}@{r['name']}", what,
                            {"instance": r["text"], "script": d["path"], "failed": d["failed"]})
            else:
                for q in props:
                    other_props.setdefault(q, []).append(f"{r['name']}: {d['failed']}")
        if prop == "C08" and r.get("prob_mass") is not None and r["prob_mass"] != [1, 1] and not r["diags"]:
            v.violation(f"C08:probability-mass@{r['name']}",
                        f"instance {r['text']}: the recorded step probabilities over the complete tree sum to {r['prob_mass']} not 1",
                        {"instance": r["text"]})

    # ---- (3) C06 only: closability analysis of descriptor types (GenerateTypes.tla), independent of the targets ----
    closab = {}
    if prop == "C06":
        hand = [m for m in I.core_instances() + I.negative_instances() + I.extra_instances()]
        for m, (wp, errs, n, closed) in zip(hand, G.parallel(lambda m: G.closability(m), hand, workers=8)):
            closab[m.name] = {"wellposed_for_all_targets": wp, "closed_when_done": closed, "abstract_errors": errs, "abstract_states": n}
            mc_states += n
        for r in results:
            base = r["name"][:-5] if r["name"].endswith("-long") else r["name"]
            c = closab.get(base)
            if not c or "machinery" in r or r.get("error"):
                continue
            errors_seen = [k for k in r["outcomes"] if k.startswith("error")]
            open_seen = [k for k in r["outcomes"] if k.startswith("done") and k.endswith(":open")]
            if c["wellposed_for_all_targets"] and errors_seen and not r["diags"]:
                # the concrete machine (and the code) reach an error that the over-approximation excludes: the abstraction is wrong
                raise MachineryError(f"GenerateTypes calls {base} well-posed for all targets but the validated traces end in {errors_seen}")
            if c["wellposed_for_all_targets"] and c["closed_when_done"] and open_seen and not r["diags"]:
                raise MachineryError(f"GenerateTypes calls {base} closed but validated traces end with open descriptors")

    # vacuity guards: every decision kind must have been exercised, with every law class where the property is about laws
    missing = []
    for k in G.KINDS:
        if sum(census.get(f"{k}/{c}", 0) for c in G.CLASSES) == 0:
            missing.append(k)
    if prop == "C08":
        for k in G.KINDS:
            for c in ("uniform", "zero-next-to-nonzero", "unequal"):
                if k == "pickListed" and c == "uniform":
                    continue
                if census.get(f"{k}/{c}", 0) == 0:
                    missing.append(f"{k}/{c}")
    never = [a for a in ("StartEnd", "HandOver", "PickOpen", "PickPartner", "PickListed", "Reserve", "CapOpen", "CapEnd", "Draw") if mc_cov.get(a, 0) == 0]
    if never and not v.violations:
        raise MachineryError(f"vacuity guard: actions of GenerateMC never taken in the model-checking runs: {never}")
    if missing and not v.violations:
        raise MachineryError(f"vacuity guard: decision kinds / law classes never exercised in this run: {missing}")

    v.coverage = {
        "states": mc_states + tot_states, "transitions": mc_trans + tot_states,
        "traces_validated_against_impl": tot_paths,
        "model_checking": {"instances": len(mc_results), "distinct_states": mc_states, "states_generated": mc_trans,
                           "action_coverage": mc_cov, "invariants": PROP_INVARIANTS[prop] + ["AttachSound"] +
                           (["Termination (liveness, WF)", "WellPosed"] if prop == "C06" else []),
                           "per_instance": mc_results[:12]},
        "conformance": {"instances": len(results), "tree_nodes_validated": tot_nodes, "paths": tot_paths,
                        "spec_to_code": {"instances": sum(1 for r in results if r.get("mode") == "replay"),
                                         "behaviours_generated_by_TLC_and_replayed_into_the_code": sum(r["paths"] for r in results if r.get("mode") == "replay"),
                                         "tree_nodes": sum(r["reached"] for r in results if r.get("mode") == "replay")},
                        "nodes_not_examined_after_a_divergence": unexamined,
                        "decision_census": {k: n for k, n in sorted(census.items()) if n},
                        "wall_s": round(conf_wall, 1),
                        "divergences_belonging_to_other_properties": {k: len(x) for k, x in other_props.items()}},
        "samples": samples or [{"instance": results[0]["text"]}],
    }
    if prop == "C05":
        # molecules generated from MIRRORS, one after the other in this process: the tokens written once (prefix, suffix) are in the molecule, whole, and nothing of
        # another molecule's tokens is (the repeat units of these inputs are all-carbon, so the hetero atoms of the result are those of its own prefix and suffix)
        import numpy as _np
        g_ = common.import_repo()
        seq_ = [("CCN{[>][<]CC(C)[>][<]}|gauss(60, 5)|CCl", ["Cl", "N"]), ("CCO{[>][<]CC(C)[>][<]}|gauss(60, 5)|CF", ["F", "O"]),
                ("CCN{[>][<]CC(C)[>][<]}|gauss(60, 5)|CCl", ["Cl", "N"]), ("SC{[>][<]CC[>][<]}|gauss(50, 5)|CBr", ["Br", "S"])]
        n_mir = 0
        for text_, het_ in seq_:
            try:
                mir_ = g_.Molecule(text_).gen_mirror()
                mg_ = mir_.generate(rng=_np.random.default_rng(3 + common.seed()))
                got_ = sorted(a.GetSymbol() for a in mg_.mol.GetAtoms() if a.GetSymbol() != "C")
            except Exception as exc:
                v.notes.append(f"mirror of {text_} could not be generated ({type(exc).__name__}); not a clause of C05")
                continue
            n_mir += 1
            if got_ != het_:
                v.violation("C05:mirror:residues-are-not-copies-of-the-written-tokens", f"mirror of {text_!r} generates {mg_.smiles!r}: hetero atoms {got_}, its prefix and suffix have {het_} "
                                                                                         f"(molecules generated from mirrors one after the other in one process)", {"text": text_})
        v.coverage["molecules_generated_from_mirrors_in_sequence"] = n_mir
        # residue numbering (spec/Residues.tla; not a clause of C05: differences are divergences in the evidence)
        from . import residues as RS
        rdiv, rcov = RS.run(common.import_repo(), I.core_instances() + I.extra_instances(), seed=common.seed())
        v.coverage["residue_numbering"] = rcov
        if rdiv:
            v.notes.append("residue numbers differ from spec/Residues.tla (not a clause of C05): " + "; ".join(rdiv[:5]))
    if closab:
        v.coverage["closability_analysis"] = {"instances": len(closab),
                                              "wellposed_for_all_targets_and_closed": sorted(k for k, c in closab.items() if c["wellposed_for_all_targets"] and c["closed_when_done"]),
                                              "possibly_ill_posed": {k: c["abstract_errors"] for k, c in closab.items() if not c["wellposed_for_all_targets"]}}
    v.assumptions = [
        "candidate order = notation order; the open-descriptor pick precedes the partner pick (both stated by C08 and the README algorithm)",
        "the provisional finalisation on a copy after every unit is part of the modelled algorithm (its generator calls appear in the traces)",
        "token chemistry (atoms, internal bonds, attachment atoms, masses) comes from RDKit applied to the token written with labelled dummy atoms - RDKit is trusted",
        "targets are forced through the library's own draw with zero-width gaussians gauss(x, 0); recorded via a tap on draw_mw",
    ]
    if other_props:
        v.notes.append({"divergences attributed to other properties (their own checks report them)":
                        {k: x[:3] for k, x in other_props.items()}})
    return v.finish()
