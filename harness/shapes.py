"""Molecule shapes enumerated by TLC (spec/MoleculeSyntax.tla) and their concretisation into ASTs / strings."""
import os
from fractions import Fraction

from . import common
from .common import Scratch, run_tlc, MachineryError, tla
from .gast import Token, Desc, Sto, Mol, Dist, parse_desc

DISTS = [("gauss", [60, 5]), ("uniform", [20, 90]), ("schulz_zimm", [120.0, 100.0]), ("log_normal", [80, 1.2]), ("poisson", [65]),
         ("flory_schulz", [0.2]), None, ("gauss", [45, 0])]


def enumerate_shapes(two=True, timeout=900):
    with Scratch("shapes") as d:
        with open(os.path.join(d, "MC.tla"), "w") as f:
            f.write("---- MODULE MC ----\nEXTENDS MoleculeSyntax\n====\n")
        cfg = os.path.join(d, "MC.cfg")
        with open(cfg, "w") as f:
            f.write(f"SPECIFICATION Spec\nCONSTANTS\n TwoObjects = {tla(bool(two))}\n"
                    "INVARIANT InsertionIdempotent\nINVARIANT InsertionIsTheDenotation\nINVARIANT ExplicitUntouched\n"
                    "INVARIANT ErasureComplete\nINVARIANT ErasureKeepsStructure\nINVARIANT Export\n")
        r = run_tlc(d, "MC", cfg=cfg, workers=1, timeout=timeout, xmx="3g")
    if not r.ok:
        print(r.tail(30))
        raise MachineryError("TLC failed on MoleculeSyntax" + (f": model theorem {r.invariant_violated()} violated" if r.invariant_violated() else ""))
    return [x for x in r.printed if "shape" in x], r


def _with_id(text, ident):
    """every descriptor of the text gets the id (the ids of a molecule are all equal, so what may bond stays the same)"""
    if ident < 0:
        return text
    for sym in "<>$":
        text = text.replace("[" + sym + "]", "[" + sym + str(ident) + "]")
    return text


def _units(directed, n, k0=0, ident=-1):
    d = [("[<]CC[>]", "[$]CC[$]"), ("[<]C(C)O[>]", "[$]C(C)O[$]"), ("[<]CC([>])C", "[$]CC([$])C")]
    return [Token.of(_with_id(d[(k0 + i) % 3][0 if directed else 1], ident)) for i in range(n)]


def _ends(directed, n, ident=-1):
    d = [("[<][H]", "[$][H]"), ("[>]F", "[$]F")]
    return [Token.of(_with_id(d[i % 2][0 if directed else 1], ident)) for i in range(n)]


def concretise(sh, k=0):
    """shape export -> Mol AST (with implicit descriptors marked) ; k cycles distributions / texts."""
    s = sh["shape"]
    elems = []
    # ids: none in half of the concretisations, else 0 (falsy), 1 or 12 - on every descriptor of the molecule, written or inserted
    ident = [-1, 0, -1, 1, -1, 0, -1, 12][k % 8]

    def tok(form, text, lead_sym, trail_sym):
        items = []
        if lead_sym:
            items.append(Desc(lead_sym, ident, None, None, form == "implicit"))
        items.append(text)
        if trail_sym:
            items.append(Desc(trail_sym, ident, Fraction(0) if form == "implicit" else None, None, form == "implicit"))
        return Token(items)

    def sto(l, r, nrep, nend, j):
        directed = (l in "<>" and l != "") or (r in "<>" and r != "")
        dist = DISTS[(k + j) % len(DISTS)]
        # terminal descriptors carry a weight in some concretisations (a weight on a terminal changes nothing but the text)
        wl = [None, None, Fraction(1, 2), None, None, Fraction(3)][(k + j) % 6] if l else None
        wr = [None, Fraction(2), None, None, Fraction(1, 4), None][(k + j) % 6] if r else None
        return Sto(Desc(l, ident if l else -1, wl), _units(directed, nrep, j, ident), _ends(directed, nend, ident), Desc(r, ident if r else -1, wr),
                   Dist(dist[0], list(dist[1])) if dist else None)

    if s["prefix"] != "absent":
        elems.append(tok(s["prefix"], ["OC", "C", "NCC"][k % 3], None, s["left"]))
    elems.append(sto(s["left"], s["right"], s["nrep"], s["nend"], 0))
    lastr = s["right"]
    if s["two"]:
        if s["connector"] != "absent":
            elems.append(tok(s["connector"], ["CO", "CCS"][k % 2], s["right"], s["left2"]))
        elems.append(sto(s["left2"], s["right2"], s["nrep2"], s["nend2"], 3))
        lastr = s["right2"]
    if s["suffix"] != "absent":
        elems.append(tok(s["suffix"], ["F", "CN", "C(C)C"][k % 3], lastr, None))
    mix = {"none": None, "abs": ".|5000|", "pct": ".|50%|"}[s["mix"]]
    return Mol(elems, mix=mix, name="shape")
