"""C20, function level: forcefield_helper.SMARTS_ASSIGNMENTS.get_type_assignments against spec/Typing.tla.

The match relation (which atoms a SMARTS rule matches) is chemistry and comes from RDKit, through this module's own
reading of the bundled rule / parameter files; the choice among matching rules, totality and the error outcome are the
specification's.  Every molecule is typed in several random atom numberings (Chem.RenumberAtoms) through the library's
assignment object and, in the numbering generation produced, through MolGen.forcefield_types.
"""
import json
import os
import random

from . import common
from .common import Scratch, run_tlc, tla, MachineryError


def read_rules(path):
    """distinct rule texts in file order -> type name (a text written twice keeps its first position, takes the last type)"""
    rules = {}
    with open(path) as f:
        for line in f:
            line = line.strip()
            if not line or line.startswith("*"):
                continue
            parts = line.split("|")
            if len(parts) != 4:
                raise MachineryError(f"rule line with {len(parts)} fields: {line}")
            rules[parts[3].strip()] = parts[2].strip()
    return list(rules.items())


def read_params(path, wanted):
    prm = {}
    with open(path) as f:
        for line in f:
            if not line or line[0] in "[;":
                continue
            w = line.split()
            if w and w[0] in wanted:
                prm[w[0]] = (float(w[3]), float(w[4]), float(w[6]), float(w[7]), w[1])
    return prm


class RuleBase:
    def __init__(self, g):
        import gbigsmiles
        from rdkit import Chem
        base = os.path.join(os.path.dirname(gbigsmiles.__file__), "data")
        self.rules = read_rules(os.path.join(base, "opls.par"))
        names = []
        for _, t in self.rules:
            if t not in names:
                names.append(t)
        self.type_names = names
        self.params = read_params(os.path.join(base, "ffnonbonded.itp"), set(names))
        self.patterns = [Chem.MolFromSmarts(r) for r, _ in self.rules]
        pt = Chem.GetPeriodicTable()
        self.elem_mass = [int(round(pt.GetAtomicWeight(z) * 1000)) for z in range(1, 101)]

    def tla_constants(self):
        rules = [{"len": len(r), "type": self.type_names.index(t) + 1} for r, t in self.rules]
        # a type named by a rule but absent from the parameter file has no mass: 0 (any use of it is then reported)
        tmass = [int(round(self.params[t][0] * 1000)) if t in self.params else 0 for t in self.type_names]
        return rules, tmass, self.elem_mass

    def match(self, mol):
        out = []
        for p in self.patterns:
            ms = mol.GetSubstructMatches(p, maxMatches=1000000)
            out.append(sorted({int(m[0]) + 1 for m in ms}))
        return out

    def types_with(self, prm):
        """type ids whose parameter set equals the returned FFParam"""
        key = (prm.mass, prm.charge, prm.sigma, prm.epsilon, prm.bond_type_name)
        return [i + 1 for i, t in enumerate(self.type_names) if self.params.get(t) == key]


def observe(rb, assigner, mol, FfAssignmentError, ref=0, perm=None):
    n = mol.GetNumAtoms()
    z = [a.GetAtomicNum() for a in mol.GetAtoms()]
    try:
        ff = assigner.get_type_assignments(mol)
        kind = "typed"
    except FfAssignmentError as exc:
        ff = exc.incomplete_ff_dict if isinstance(exc.incomplete_ff_dict, dict) else {}
        kind = "assignment-error"
    got = []
    for a in range(n):
        prm = ff.get(a)
        got.append([] if prm is None else (rb.types_with(prm) or [0]))
    return {"n": n, "z": z, "match": rb.match(mol), "kind": kind, "got": got, "ref": ref, "perm": perm or list(range(1, n + 1))}


def validate(rb, observations, tag="typing", timeout=900):
    rules, tmass, emass = rb.tla_constants()
    with Scratch(tag) as d:
        with open(os.path.join(d, "MC.tla"), "w") as f:
            f.write("---- MODULE MC ----\nEXTENDS TypingTrace\n")
            f.write("MCRules == " + tla(rules) + "\n")
            f.write("MCTypeMass == " + tla(tmass) + "\n")
            f.write("MCElemMass == " + tla(emass) + "\n====\n")
        tf = os.path.join(d, "obs.json")
        with open(tf, "w") as f:
            json.dump(observations, f)
        cfg = os.path.join(d, "MC.cfg")
        with open(cfg, "w") as f:
            f.write("SPECIFICATION Spec\nCONSTANTS\n Rules <- MCRules\n TypeMass <- MCTypeMass\n ElemMass <- MCElemMass\nINVARIANT Diagnose\n")
        r = run_tlc(d, "MC", cfg=cfg, workers=1, env={"TRACE_FILE": tf}, timeout=timeout, xmx="3g")
    return r


def model_theorems(n_atoms=3, lens=(3, 5, 5, 2), timeout=600):
    """TypingMC: every match relation between len(lens) rules and n_atoms atoms; returns the TLC result"""
    with Scratch("typingmc") as d:
        rules = [{"len": l, "type": i + 1} for i, l in enumerate(lens)]
        with open(os.path.join(d, "MC.tla"), "w") as f:
            f.write("---- MODULE MC ----\nEXTENDS TypingMC\nMCRules == " + tla(rules) + "\n====\n")
        cfg = os.path.join(d, "MC.cfg")
        with open(cfg, "w") as f:
            f.write(f"SPECIFICATION Spec\nCONSTANTS\n Rules <- MCRules\n N = {n_atoms}\nINVARIANT T1\nINVARIANT T2\nINVARIANT T3\n")
        return run_tlc(d, "MC", cfg=cfg, workers=4, timeout=timeout, xmx="3g")
