"""Batch validation of law records by TLC (spec/Law.tla)."""
import json
import os

from . import common
from .common import Scratch, run_tlc, MachineryError

S = 10 ** 8


def sc(x):
    """real in about [-10, 10] -> integer scaled by 1e8 (clipped to what TLC's 32 bit integers hold)"""
    if x != x:
        return -2 * S
    return int(max(-20 * S, min(20 * S, round(x * S))))


def validate(records, tag="law", timeout=1200):
    """records: list of dicts (ints only) -> list of (index, failed clauses)"""
    if not records:
        return [], 0
    with Scratch(tag) as d:
        with open(os.path.join(d, "MC.tla"), "w") as f:
            f.write("---- MODULE MC ----\nEXTENDS Law\n====\n")
        tf = os.path.join(d, "recs.json")
        with open(tf, "w") as f:
            json.dump(records, f)
        cfg = os.path.join(d, "MC.cfg")
        with open(cfg, "w") as f:
            f.write("SPECIFICATION Spec\nINVARIANT Diagnose\n")
        r = run_tlc(d, "MC", cfg=cfg, workers=1, env={"TRACE_FILE": tf}, timeout=timeout, xmx="3g")
    if not r.ok:
        print("\n".join(l for l in r.out.splitlines() if not l.startswith(("State ", "i = ")) and l.strip())[-3000:])
        raise MachineryError("TLC failed on Law records")
    if r.distinct != len(records):
        raise MachineryError(f"TLC visited {r.distinct} of {len(records)} records")
    return [(x["rec"] - 1, x["failed"]) for x in r.printed if "failed" in x], r.distinct
