"""System texts (spec/SystemScan.tla): TLC enumerates every sequence of pieces (atoms, descriptors - one with '.|' inside its
brackets -, four syntaxes of mixture specifiers, blanks) up to a length, checks that the character-level scanner implements
the grammar, and exports every sequence with its denotation; each is replayed into System(text) and Molecule(text)."""
import os
import signal
from concurrent.futures import ProcessPoolExecutor

from . import common
from .common import Scratch, run_tlc, MachineryError

CHARS = {"A": "C", "D": "[$]", "W": "[$|5.|]", "M": ".|5|", "P": ".|50%|", "Q": ".|.5%|", "E": ".|5.|", "S": " "}
MIXVAL = {"M": ("abs", 5.0), "P": ("pct", 50.0), "Q": ("pct", 0.5), "E": ("abs", 5.0)}


def enumerate_texts(maxlen, timeout=1200):
    with Scratch("sysscan") as d:
        with open(os.path.join(d, "MC.tla"), "w") as f:
            f.write("---- MODULE MC ----\nEXTENDS SystemScan\n====\n")
        cfg = os.path.join(d, "MC.cfg")
        with open(cfg, "w") as f:
            f.write(f"SPECIFICATION Spec\nCONSTANT MaxLen = {maxlen}\nINVARIANT Theorem\nINVARIANT Export\n")
        r = run_tlc(d, "MC", cfg=cfg, workers=1, timeout=timeout, xmx="4g")
    if not r.ok:
        print(r.tail(25))
        raise MachineryError("SystemScan: " + (f"the scanner does not implement the grammar ({r.invariant_violated()})" if r.invariant_violated() else "TLC failed"))
    return [x for x in r.printed if "pieces" in x], r


class _Timeout(Exception):
    pass


def _alarm(s, f):
    raise _Timeout()


def _body_ok(body):
    return len(body) >= 1 and body[0] == "A" and all(p == "A" for p in body[:-1]) and body[-1] in ("A", "D", "W")


def _check_component(mol, comp, where, text, out):
    mix = comp["mix"]
    if mix:
        kind, val = MIXVAL[mix]
        mx = mol.mixture
        got = None if mx is None else (mx.absolute_mass if kind == "abs" else mx.relative_mass)
        if got is None or abs(got - val) > 1e-9:
            out.append(("C02:system-text:mixture-value", f"{where}({text!r}): the specifier {CHARS[mix]!r} denotes {val} {'absolute' if kind == 'abs' else '%'} but the component carries "
                        f"absolute={getattr(mx, 'absolute_mass', None)} relative={getattr(mx, 'relative_mass', None)}"))
    body = comp["body"]
    if _body_ok(body):
        els = mol.elements
        n_atoms = sum(1 for p in body if p == "A")
        ok = len(els) == 1 and hasattr(els[0], "bond_descriptors")
        if ok:
            tok = els[0]
            ok = len(tok.atoms) == n_atoms and len(tok.bond_descriptors) == (1 if body[-1] in "DW" else 0)
            if ok and body[-1] in "DW":
                ok = abs(float(tok.bond_descriptors[0].weight) - (5.0 if body[-1] == "W" else 1.0)) < 1e-12
        if not ok:
            out.append(("C02:system-text:component-body", f"{where}({text!r}): a component denotes the token {''.join(CHARS[p] for p in body)!r} but is read as {[str(e) for e in els]}"))


def _replay_chunk(chunk):
    g = common.import_repo()
    signal.signal(signal.SIGALRM, _alarm)
    out = []
    n_acc = n_rej = 0
    for rec in chunk:
        pieces = rec["pieces"]
        text = "".join(CHARS[p] for p in pieces)
        comps = rec["comps"]
        # ---- System(text) ----
        signal.alarm(10)
        try:
            s = g.System(text)
            signal.alarm(0)
            mols = s._molecules
            n_acc += 1
            if len(mols) != len(comps):
                out.append(("C02:system-text:component-count", f"System({text!r}) has {len(mols)} components, the text denotes {len(comps)}"))
            else:
                for mol, comp in zip(mols, comps):
                    _check_component(mol, comp, "System", text, out)
        except _Timeout:
            out.append(("C15:system-text:parse-does-not-terminate", f"System({text!r}) did not return within 10 s"))
        except Exception as exc:
            signal.alarm(0)
            n_rej += 1
            # a well-formed text whose components all carry absolute masses (or a single component) determines the system: it has to be accepted
            if rec["wellformed"] and comps and all(c["mix"] in ("M", "E") for c in comps):
                out.append(("C02:system-text:well-formed-rejected", f"System({text!r}) raises {type(exc).__name__}: {str(exc)[:120]}"))
        # ---- Molecule(text): text after a mixture specifier is an error ----
        signal.alarm(10)
        try:
            m = g.Molecule(text)
            signal.alarm(0)
            if len(comps) > 1:
                out.append(("C15:system-text:text-after-mixture-specifier-accepted", f"Molecule({text!r}) is accepted although text follows the mixture specifier"))
            elif len(comps) == 1:
                _check_component(m, comps[0], "Molecule", text, out)
        except _Timeout:
            out.append(("C15:system-text:parse-does-not-terminate", f"Molecule({text!r}) did not return within 10 s"))
        except Exception as exc:
            signal.alarm(0)
            if rec["wellformed"] and len(comps) == 1:
                out.append(("C02:system-text:well-formed-rejected", f"Molecule({text!r}) raises {type(exc).__name__}: {str(exc)[:120]}"))
    return out, n_acc, n_rej


def run(maxlen, workers=10):
    recs, r = enumerate_texts(maxlen)
    chunks = [recs[i::workers * 4] for i in range(workers * 4)]
    viol, acc, rej = [], 0, 0
    with ProcessPoolExecutor(max_workers=workers) as ex:
        for out, a, b in ex.map(_replay_chunk, chunks):
            viol += out
            acc += a
            rej += b
    return viol, {"piece_sequences": len(recs), "max_pieces": maxlen, "states": r.distinct, "systems_accepted": acc, "systems_rejected": rej,
                  "wellformed": sum(1 for x in recs if x["wellformed"])}
