from . import genprops


def run(tier):
    return genprops.run("C06", tier)
