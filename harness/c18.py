"""C18 - atom-graph generation yields trees of whole residues joined along graph edges."""
import copy
import json
import os
import random
import signal
import time

import numpy as np

from . import common, gencheck as G, instances as I, explore as X
from .common import Verdict, MachineryError, run_tlc, Scratch
from .gast import Mol, Sto, Token, Dist, M, S


class Timeout(Exception):
    pass


def _alarm(s, f):
    raise Timeout()


def sz_instances(tier):
    """molecules with a start node (a prefix token) and Schulz-Zimm distributions"""
    base = [m for m in I.core_instances() + I.extra_instances() if any(isinstance(e, Sto) for e in m.elems)
            and not m.name.startswith(("neg", "plain", "negative", "target", "handover", "list-into", "triple", "star", "dollar-ids"))]
    extra = [
        M("C[>]", S("[>]", ["[<]CC([>])c1ccccc1"], ["[<]C(C)(C)C", "[>]OC"], "[<]", None), "[<]CCO", name="multi-atom-endgroups"),
        M("N[$]", S("[$]", ["[$]CC([$])C[$]", "[$]CO[$]"], ["[$]C(=O)O", "[$][H]"], "[$]", None), "[$]F", name="branched-dollar-endgroups"),
        M("C[>]", S("[>]", ["[<]CC[>|0 1 0 0 0|]", "[<]CO[>]"], ["[<]CCl"], "[<]", None), "[<]O", name="listed-sz"),
        # descriptors on two atoms that are bonded to each other inside the token, with another order than their own bond
        M("C[>]", S("[>]", ["[<]C=C[>]", "[<]CC[>]"], ["[<][H]"], "[<]", None), "[<]O", name="vinylene"),
        M("C[$]", S("[$]", ["[$]C#C[$]"], ["[$]F"], "[$]", None), "[$]N", name="ethynylene"),
        # one atom carrying two descriptors of different bond order, each with its own end group
        M(S("[]", ["[<]=C([<])CC[>]"], ["[>]=O", "[>]F"], "[]", None), name="two-orders-on-one-atom"),
        M(S("[]", ["[<]C(=[<])CC[>]"], ["[>]F", "[>]=O"], "[]", None), name="two-orders-on-one-atom-b"),
        # starts inside the object (no prefix), end groups, quaternary carbons, followed by a suffix
        M(S("[]", ["[<]C(C)(C)C(C)(C)[>]"], ["[<][H]", "[>][H]"], "[<]", None), "[<]O", name="no-prefix-quaternary"),
        M(S("[]", ["[<]C(C)(C)C(C)(C)[>]"], ["[<][H]", "[>]F"], "[<]", None), S("[>]", ["[<]CC[>]"], ["[<]Cl"], "[<]", None), "[<][H]", name="no-prefix-two-blocks"),
    ]
    out = []
    for m in base + extra:
        m2 = copy.deepcopy(m)
        for e in m2.elems:
            if isinstance(e, Sto):
                e.dist = Dist("schulz_zimm", [90.0, 60.0])
        for t in m2.tokens():
            if hasattr(t, "_chem"):
                del t._chem
        m2.name = m.name + "-sz"
        out.append(m2)
    return out


def ag_call(g):
    def call(obj, rng):
        sag = obj.gen_stochastic_atom_graph(expect_schulz_zimm_distribution=True)
        ag = g.AtomGraph(sag, rng=rng)
        ag.generate()
        return ag
    return call


def ag_project(ag):
    from rdkit import Chem
    gr = ag.graph
    nodes = [int(gr.nodes[n]["stochastic_node"]) + 1 for n in sorted(gr.nodes)]
    edges = [[int(a) + 1, int(b) + 1, int(d["bond_type"])] for a, b, d in gr.edges(data=True)]
    try:
        mol = ag.to_mol()
        smi = Chem.MolToSmiles(mol)
        frags = len(Chem.GetMolFrags(mol))
        sane = True
    except Exception as exc:
        smi, sane, frags = f"{type(exc).__name__}", False, 0
    return {"kind": "mol", "nodes": nodes, "edges": edges, "sane": sane, "smiles": smi, "fragments": frags}


def validate(mol: Mol, observations, tag="ag18", timeout=600):
    with Scratch(tag) as d:
        G.write_instance_module(d, mol, base="AtomGen")
        tf = os.path.join(d, "obs.json")
        with open(tf, "w") as f:
            json.dump([{k: o[k] for k in ("kind", "nodes", "edges", "sane")} if o["kind"] == "mol" else {"kind": o["kind"]} for o in observations], f)
        cfg = os.path.join(d, "MC.cfg")
        with open(cfg, "w") as f:
            f.write("SPECIFICATION Spec\nCONSTANTS\n Elems <- MCElems\n Tok <- MCTok\nINVARIANT Diagnose\n")
        r = run_tlc(d, "MC", cfg=cfg, workers=1, env={"TRACE_FILE": tf}, timeout=timeout, xmx="3g")
    return r


def _one(args):
    """explore + validate one instance in a worker process; returns (violations, stats)"""
    m, tier, seed0 = args
    g = common.import_repo()
    X.Tap.install(g)
    signal.signal(signal.SIGALRM, _alarm)
    call = ag_call(g)
    out = []
    stats = {"states": 0, "mols": 0, "paths": 0, "sample": None, "machinery": None}
    budget = dict(max_nodes=600, max_seconds=6) if tier == "quick" else dict(max_nodes=15000, max_seconds=120)
    text = m.text()
    try:
        obj = g.Molecule(text)
    except Exception as exc:
        stats["machinery"] = f"{text}: {exc}"
        return out, stats
    try:
        sag = obj.gen_stochastic_atom_graph(True)
        start = g.AtomGraph(sag, rng=np.random.default_rng(0))._find_start_source()
    except Exception as exc:
        out.append((f"C18:graph-construction-raises:{type(exc).__name__}", f"{text}: {exc}", {"instance": text}))
        return out, stats
    if start is None:
        return out, stats      # outside C18 ("every graph that has a start node")
    obs = []

    def guarded(o, rng, _c=call):
        signal.alarm(180)
        try:
            return _c(o, rng)
        finally:
            signal.alarm(0)
    tree = X.explore(obj, call=guarded, projector=ag_project, qgrid={"uniform": [0.25, 0.6, 0.9]}, **budget)
    for n in tree.nodes:
        if not n["kids"]:
            obs.append(n["obs"])
    for seed in range(4 if tier == "quick" else 25):
        outs = []
        for rep in range(2):
            try:
                signal.alarm(180)
                ag = call(obj, np.random.default_rng(seed + 1000 * seed0))
                signal.alarm(0)
                outs.append(ag_project(ag))
            except Timeout:
                outs.append({"kind": "nontermination"})
            except Exception as exc:
                signal.alarm(0)
                outs.append({"kind": "error", "exc": type(exc).__name__, "msg": str(exc)[:100]})
        if outs[0].get("smiles") != outs[1].get("smiles") or outs[0]["kind"] != outs[1]["kind"]:
            out.append(("C18:equal-seeds-different-molecules", f"{text}: seed {seed} gives {outs[0].get('smiles')} and then {outs[1].get('smiles')}", {"instance": text}))
        obs.append(outs[0])
    stats["paths"] = tree.paths
    for o in obs:
        if o["kind"] == "nontermination":
            out.append(("C18:generation-does-not-terminate", f"{text}: AtomGraph.generate() did not return within the bound (time / generator calls)", {"instance": text}))
        elif o["kind"] == "error":
            if "updating stopped" in o.get("msg", "") or o.get("exc") in ("Timeout",):
                continue       # scipy's quantile search of the Schulz-Zimm law (C11's matter)
            out.append((f"C18:generation-raises:{o.get('exc')}", f"{text}: AtomGraph.generate() raises {o.get('exc')}: {o.get('msg')}", {"instance": text}))
    mols = [o for o in obs if o["kind"] == "mol"]
    if not mols:
        return out, stats
    r = validate(m, mols)
    if not r.ok:
        stats["machinery"] = f"TLC failed on the atom-graph molecules of {m.name}\n" + r.tail(20)
        return out, stats
    stats["states"] = r.distinct
    stats["mols"] = len(mols)
    stats["sample"] = {"instance": text, "molecules": len(mols), "example": mols[0]["smiles"]}
    for d in r.printed:
        if "failed" in d:
            o = mols[d["obs"] - 1]
            endg = "+multi-atom-end-group" if any(len(t.chem()["atoms"]) > 1 for e in m.elems if isinstance(e, Sto) for t in e.end) else ""
            for c in d["failed"]:
                out.append((f"C18:{c}{endg if c == 'residue-not-a-whole-token' else ''}", f"{text}: generated {o['smiles']} ({len(o['nodes'])} atoms, {d['blocks']} residue blocks): {c}",
                            {"instance": text, "nodes": o["nodes"], "edges": o["edges"]}))
    for o in mols:
        if o.get("sane") and o.get("fragments", 1) != 1:
            out.append(("C18:not-one-connected-molecule", f"{text}: generated {o['smiles']} has {o['fragments']} fragments", {"instance": text}))
    return out, stats


def run(tier):
    from concurrent.futures import ProcessPoolExecutor
    v = Verdict("C18", tier)
    insts = sz_instances(tier)
    with ProcessPoolExecutor(max_workers=12) as ex:
        results = list(ex.map(_one, [(m, tier, common.seed()) for m in insts], chunksize=1))
    states = n_mols = n_paths = 0
    samples = []
    for viol, st in results:
        if st["machinery"]:
            print(st["machinery"])
            raise MachineryError("worker failed")
        for key, what, rep in viol:
            v.violation(key, what, rep)
        states += st["states"]
        n_mols += st["mols"]
        n_paths += st["paths"]
        if st["sample"] and len(samples) < 4:
            samples.append(st["sample"])
    v.coverage = {"states": states, "transitions": states, "traces_validated_against_impl": n_mols, "molecules_validated": n_mols, "choice_paths": n_paths,
                  "instances": len(insts), "samples": samples}
    v.assumptions = ["molecules started from one of several end groups have no start node and are outside C18 (the statement's precondition)",
                     "residue instances are the blocks of atoms in creation order", "scipy's failures of the Schulz-Zimm quantile search are C11's matter and skipped here"]
    return v.finish()
