"""C18 - atom-graph generation yields trees of whole residues joined along graph edges."""
import copy
import json
import os
import random
import signal
import time

import numpy as np

from . import common, gencheck as G, instances as I, explore as X, atomgen as A
from .common import Verdict, MachineryError, run_tlc, Scratch
from .gast import Mol, Sto, Token, Dist, M, S


class Timeout(Exception):
    pass


def _alarm(s, f):
    raise Timeout()


def sz_instances(tier):
    """molecules with a start node (a prefix token) and Schulz-Zimm distributions"""
    base = [m for m in I.core_instances() + I.extra_instances() if any(isinstance(e, Sto) for e in m.elems)
            and not m.name.startswith(("neg", "plain", "negative", "target", "handover", "list-into", "triple", "star", "dollar-ids", "suffix-behind"))]      # (suffix-behind-27-tokens: an atom graph of 400 atoms, nothing C18 does not see on smaller ones)
    extra = [
        M("C[>]", S("[>]", ["[<]CC([>])c1ccccc1"], ["[<]C(C)(C)C", "[>]OC"], "[<]", None), "[<]CCO", name="multi-atom-endgroups"),
        M("N[$]", S("[$]", ["[$]CC([$])C[$]", "[$]CO[$]"], ["[$]C(=O)O", "[$][H]"], "[$]", None), "[$]F", name="branched-dollar-endgroups"),
        M("C[>]", S("[>]", ["[<]CC[>|0 1 0 0 0|]", "[<]CO[>]"], ["[<]CCl"], "[<]", None), "[<]O", name="listed-sz"),
        # descriptors on two atoms that are bonded to each other inside the token, with another order than their own bond
        M("C[>]", S("[>]", ["[<]C=C[>]", "[<]CC[>]"], ["[<][H]"], "[<]", None), "[<]O", name="vinylene"),
        M("C[$]", S("[$]", ["[$]C#C[$]"], ["[$]F"], "[$]", None), "[$]N", name="ethynylene"),
        # one atom carrying two descriptors of different bond order, each with its own end group
        M(S("[]", ["[<]=C([<])CC[>]"], ["[>]=O", "[>]F"], "[]", None), name="two-orders-on-one-atom"),
        M(S("[]", ["[<]C(=[<])CC[>]"], ["[>]F", "[>]=O"], "[]", None), name="two-orders-on-one-atom-b"),
        # starts inside the object (no prefix), end groups, quaternary carbons, followed by a suffix
        M(S("[]", ["[<]C(C)(C)C(C)(C)[>]"], ["[<][H]", "[>][H]"], "[<]", None), "[<]O", name="no-prefix-quaternary"),
        M(S("[]", ["[<]C(C)(C)C(C)(C)[>]"], ["[<][H]", "[>]F"], "[<]", None), S("[>]", ["[<]CC[>]"], ["[<]Cl"], "[<]", None), "[<][H]", name="no-prefix-two-blocks"),
    ]
    # a plain token spelled like a repeat unit of a later object; two blocks that share a monomer but not their (Mw, Mn) - these keep their own laws
    own = [
        M("CCO[>]", S("[>]", ["[<]CCO[>]"], [], "[<]", ("schulz_zimm", [90.0, 60.0])), "[<]C", name="prefix-spelled-like-the-unit"),
        M("C[>]", S("[>]", ["[<]CC[>]"], [], "[<]", ("schulz_zimm", [60.0, 40.0])), S("[>]", ["[<]CC[>]"], [], "[<]", ("schulz_zimm", [200.0, 150.0])), "[<]O",
          name="two-blocks-one-monomer-two-laws"),
    ]
    out = []
    for m in base + extra + own:
        m2 = copy.deepcopy(m)
        for e in m2.elems:
            if isinstance(e, Sto) and m not in own:
                e.dist = Dist("schulz_zimm", [90.0, 60.0])
        for t in m2.tokens():
            if hasattr(t, "_chem"):
                del t._chem
        m2.name = m.name + "-sz"
        out.append(m2)
    return out


def ag_call(g):
    def call(obj, rng):
        sag = obj.gen_stochastic_atom_graph(expect_schulz_zimm_distribution=True)
        ag = g.AtomGraph(sag, rng=rng)
        ag.generate()
        return ag
    return call


ag_project = A.ag_project


def validate(mol: Mol, observations, tag="ag18", timeout=600):
    with Scratch(tag) as d:
        G.write_instance_module(d, mol, base="AtomGen")
        tf = os.path.join(d, "obs.json")
        with open(tf, "w") as f:
            json.dump([{k: o[k] for k in ("kind", "nodes", "edges", "sane")} if o["kind"] == "mol" else {"kind": o["kind"]} for o in observations], f)
        cfg = os.path.join(d, "MC.cfg")
        with open(cfg, "w") as f:
            f.write("SPECIFICATION Spec\nCONSTANTS\n Elems <- MCElems\n Tok <- MCTok\nINVARIANT Diagnose\n")
        r = run_tlc(d, "MC", cfg=cfg, workers=1, env={"TRACE_FILE": tf}, timeout=timeout, xmx="3g")
    return r


# clauses of the step-level comparison with spec/AtomGenMachine.tla that are clauses of C18's statement
MACHINE_C18_CLAUSES = ("model-WholeResidues", "model-InternalBonds", "model-LinksAlongEdges", "model-ResidueTree", "nontermination")


def _one(args):
    """explore + validate one instance in a worker process; returns (violations, stats)"""
    m, tier, seed0 = args
    g = common.import_repo()
    X.Tap.install(g)
    from gbigsmiles.chem_resource import atomic_masses
    signal.signal(signal.SIGALRM, _alarm)
    call = ag_call(g)
    out = []
    stats = {"states": 0, "mols": 0, "paths": 0, "sample": None, "machinery": None,
             "machine": {"tree_nodes": 0, "tree_nodes_explained": 0, "divergences": [], "census": {}, "mc_states": 0, "mc_census": {},
                         "behaviours_replayed": 0, "behaviour_mismatches": [], "bisimilar": False, "liveness_checked": False}}
    M_ = stats["machine"]
    budget = dict(max_nodes=600, max_seconds=6) if tier == "quick" else dict(max_nodes=8000, max_seconds=120)
    text = m.text()
    try:
        obj = g.Molecule(text)
    except Exception as exc:
        stats["machinery"] = f"{text}: {exc}"
        return out, stats
    try:
        sag = obj.gen_stochastic_atom_graph(True)
        start = g.AtomGraph(sag, rng=np.random.default_rng(0))._find_start_source()
    except Exception as exc:
        out.append((f"C18:graph-construction-raises:{type(exc).__name__}", f"{text}: {exc}", {"instance": text}))
        return out, stats
    if start is None:
        return out, stats      # outside C18 ("every graph that has a start node")
    try:
        gc = A.export_graph(sag.graph, atomic_masses)
    except A.GraphNotExportable as exc:
        gc = None
        M_["divergences"].append(f"graph not exportable: {exc}")
    obs = []

    def guarded(o, rng, _c=call):
        signal.alarm(180)
        try:
            return _c(o, rng)
        finally:
            signal.alarm(0)
    # the choice tree of the implementation; options the code only has because it adds 1e-300 to every weight are not explored
    tree = X.explore(obj, call=guarded, projector=ag_project, qgrid={"uniform": [0.25, 0.6, 0.9]}, min_p=A.MIN_P, **budget)
    for n in tree.nodes:
        if not n["kids"]:
            obs.append(n["obs"])
    for nd in tree.nondeterminism[:3]:
        out.append(("C18:equal-scripts-different-decisions", f"{text}: the same scripted generator met different decisions at tree node {nd['node']}", {"instance": text}))
    # ---- step level: the tree against the machine of the specification (code -> spec) ----
    if gc is not None:
        mres = A.validate_machine(gc, tree, tag="agm18", timeout=900 if tier == "quick" else 3600)
        if mres.error:
            stats["machinery"] = f"TLC failed on the atom-graph machine trace of {m.name}\n" + mres.tail
            return out, stats
        M_["tree_nodes"] = mres.nodes
        M_["tree_nodes_explained"] = mres.reached
        M_["census"] = mres.census
        for d in mres.diags:
            for c in d["failed"]:
                if c.split(":")[0] in MACHINE_C18_CLAUSES:
                    if c != "nontermination":      # (non-termination is reported from the observations below)
                        out.append((f"C18:followed-state:{c}", f"{text}: following the implementation's decisions the machine reaches a state where {c} fails "
                                                             f"(tree node {d['node']}, {d.get('natoms')} atoms)", {"instance": text, "diag": d}))
                else:
                    M_["divergences"].append(f"node {d['node']}: {c}")
        M_["bisimilar"] = (not mres.diags) and mres.reached == mres.nodes and not tree.truncated
        # ---- design level: the machine on this graph, every option, target grid, liveness ----
        grid = [300000, 700000] if tier == "quick" else [300000, 700000, 1500000]
        tg = [list(grid) for _ in gc["keys"]]
        mc = A.model_check_graph(gc, tg, tag="agmc18", timeout=300 if tier == "quick" else 1800)
        if mc["ok"]:
            M_["mc_states"] = mc["distinct"]
            M_["mc_census"] = mc["coverage"]
            M_["liveness_checked"] = True
        elif mc["violated"]:
            # the machine itself breaks an invariant / does not terminate on the graph the implementation built: a statement about the code
            # only where the code was seen to follow the machine step by step
            what = f"{text}: on the stochastic atom graph of this molecule the generation machine violates {mc['violated']}"
            if M_["bisimilar"] or not mres.diags:
                out.append((f"C18:machine:{mc['violated']}", what + "\n" + mc["tail"][-1500:], {"instance": text}))
            else:
                M_["divergences"].append("machine violates " + str(mc["violated"]) + " (not reported: the code does not follow the machine here)")
        else:
            M_["divergences"].append("model checking of the machine did not finish: " + mc["tail"][-200:].replace("\n", " "))
        # ---- spec -> code: behaviours generated by TLC stepped through the real code ----
        behs, r = A.export_behaviours(gc, tg, tag="agmch18", timeout=120 if tier == "quick" else 400)
        if not r.ok and not behs:
            behs, r = A.export_behaviours(gc, tg, tag="agmch18s", timeout=120, simulate=(40, 300))
        if tier == "thorough":
            deep, r2 = A.export_behaviours(gc, [[3000000, 8000000] for _ in gc["keys"]], tag="agmch18d", timeout=900, simulate=(60, 800))
            behs = behs + deep
        cap = 150 if tier == "quick" else 1500
        if len(behs) > cap:
            step = len(behs) / cap
            behs = [behs[int(i * step)] for i in range(cap)]
        for b in behs:
            signal.alarm(180)
            try:
                mm = A.replay_behaviour(obj, call, b)
            except Timeout:
                mm = ["replay does not return"]
            finally:
                signal.alarm(0)
            M_["behaviours_replayed"] += 1
            if mm:
                if len(M_["behaviour_mismatches"]) < 5:
                    M_["behaviour_mismatches"].append({"hist": b["hist"][:40], "mismatch": mm})
            # whatever the code built on this schedule is judged by C18's clauses like every other generated molecule
            if getattr(A, "last_obs", None) and A.last_obs.get("kind") == "mol":
                obs.append(A.last_obs)
    for seed in range(4 if tier == "quick" else 25):
        outs = []
        for rep in range(2):
            try:
                signal.alarm(180)
                ag = call(obj, np.random.default_rng(seed + 1000 * seed0))
                signal.alarm(0)
                outs.append(ag_project(ag))
            except Timeout:
                outs.append({"kind": "nontermination"})
            except Exception as exc:
                signal.alarm(0)
                outs.append({"kind": "error", "exc": type(exc).__name__, "msg": str(exc)[:100]})
        if outs[0].get("smiles") != outs[1].get("smiles") or outs[0]["kind"] != outs[1]["kind"]:
            out.append(("C18:equal-seeds-different-molecules", f"{text}: seed {seed} gives {outs[0].get('smiles')} and then {outs[1].get('smiles')}", {"instance": text}))
        obs.append(outs[0])
    stats["paths"] = tree.paths
    for o in obs:
        if o["kind"] == "nontermination":
            out.append(("C18:generation-does-not-terminate", f"{text}: AtomGraph.generate() did not return within the bound (time / generator calls)", {"instance": text}))
        elif o["kind"] == "error":
            if "updating stopped" in o.get("msg", "") or o.get("exc") in ("Timeout",):
                continue       # scipy's quantile search of the Schulz-Zimm law (C11's matter)
            out.append((f"C18:generation-raises:{o.get('exc')}", f"{text}: AtomGraph.generate() raises {o.get('exc')}: {o.get('msg')}", {"instance": text}))
    mols = [o for o in obs if o["kind"] == "mol"]
    if not mols:
        return out, stats
    r = validate(m, mols, timeout=900 if tier == "quick" else 3600)
    if not r.ok:
        stats["machinery"] = f"TLC failed on the atom-graph molecules of {m.name}\n" + r.tail(20)
        return out, stats
    stats["states"] = r.distinct
    stats["mols"] = len(mols)
    stats["sample"] = {"instance": text, "molecules": len(mols), "example": mols[0]["smiles"]}
    for d in r.printed:
        if "failed" in d:
            o = mols[d["obs"] - 1]
            endg = "+multi-atom-end-group" if any(len(t.chem()["atoms"]) > 1 for e in m.elems if isinstance(e, Sto) for t in e.end) else ""
            for c in d["failed"]:
                out.append((f"C18:{c}{endg if c == 'residue-not-a-whole-token' else ''}", f"{text}: generated {o['smiles']} ({len(o['nodes'])} atoms, {d['blocks']} residue blocks): {c}",
                            {"instance": text, "nodes": o["nodes"], "edges": o["edges"]}))
    for o in mols:
        if o.get("sane") and o.get("fragments", 1) != 1:
            out.append(("C18:not-one-connected-molecule", f"{text}: generated {o['smiles']} has {o['fragments']} fragments", {"instance": text}))
    return out, stats


def run(tier):
    from concurrent.futures import ProcessPoolExecutor
    v = Verdict("C18", tier)
    insts = sz_instances(tier)
    with ProcessPoolExecutor(max_workers=12) as ex:
        results = list(ex.map(_one, [(m, tier, common.seed()) for m in insts], chunksize=1))
    # the target draw at quantiles where scipy's discrete quantile search gives up (a known finding of C11): whatever happens then - an exception or a
    # molecule - is a function of the supplied generator, not of the module generator's state
    g = common.import_repo()
    from .rng import ScriptedRNG
    n_hard = 0
    for text, us in (("C[>]{[>][<]CC[>][<]}|schulz_zimm(200, 150)|[<]O", (0.3392, 0.3442, 0.5)), ("C[>]{[>][<]CC[>][<]}|schulz_zimm(800, 400)|[<]O", (0.3392, 0.61, 0.5))):
        obj = g.Molecule(text)
        sag = obj.gen_stochastic_atom_graph(True)
        for u in us:
            outs = []
            for k in range(3):
                for _ in range(k * 7):
                    g._GLOBAL_RNG.random()          # another state of the module generator each time
                try:
                    ag = g.AtomGraph(sag, rng=ScriptedRNG([], qgrid={"uniform": [u]}, min_p=A.MIN_P))
                    ag.generate()
                    outs.append(("mol", ag_project(ag)["smiles"]))
                except Exception as exc:
                    outs.append(("raises", type(exc).__name__))
            n_hard += 1
            if len(set(outs)) != 1:
                v.violation("C18:equal-generators-different-outcomes", f"{text}: the same scripted generator (target quantile {u}) gives {sorted(set(outs))} under different states "
                                                                       f"of the module generator", {"instance": text, "quantile": u})
    states = n_mols = n_paths = 0
    samples = []
    mach = {"instances_with_machine": 0, "instances_bisimilar_on_explored_tree": 0, "tree_nodes": 0, "tree_nodes_explained": 0,
            "mc_states": 0, "instances_liveness_checked": 0, "behaviours_replayed_into_code": 0, "behaviours_reproduced_exactly": 0,
            "census": {}, "mc_census": {}, "divergences_not_c18": [], "behaviour_mismatches": []}
    for (viol, st), m_ in zip(results, insts):
        M_ = st.get("machine") or {}
        if M_.get("tree_nodes"):
            mach["instances_with_machine"] += 1
            mach["instances_bisimilar_on_explored_tree"] += 1 if M_["bisimilar"] else 0
            mach["tree_nodes"] += M_["tree_nodes"]
            mach["tree_nodes_explained"] += M_["tree_nodes_explained"]
            mach["mc_states"] += M_["mc_states"]
            mach["instances_liveness_checked"] += 1 if M_["liveness_checked"] else 0
            mach["behaviours_replayed_into_code"] += M_["behaviours_replayed"]
            mach["behaviours_reproduced_exactly"] += M_["behaviours_replayed"] - len(M_["behaviour_mismatches"])
            for k, c in M_["census"].items():
                mach["census"][k] = mach["census"].get(k, 0) + c
            for k, c in M_["mc_census"].items():
                mach["mc_census"][k] = mach["mc_census"].get(k, 0) + c
            for d in M_["divergences"][:3]:
                if len(mach["divergences_not_c18"]) < 40:
                    mach["divergences_not_c18"].append(f"{m_.name}: {d}")
            for d in M_["behaviour_mismatches"][:2]:
                if len(mach["behaviour_mismatches"]) < 20:
                    mach["behaviour_mismatches"].append({"instance": m_.name, **d})
    for viol, st in results:
        if st["machinery"]:
            print(st["machinery"])
            raise MachineryError("worker failed")
        for key, what, rep in viol:
            v.violation(key, what, rep)
        states += st["states"]
        n_mols += st["mols"]
        n_paths += st["paths"]
        if st["sample"] and len(samples) < 4:
            samples.append(st["sample"])
    # vacuity guard of the step-level part: every decision kind of the machine was met in the implementation's trees and in model checking
    if not any(st["machinery"] for _, st in results):
        kinds_seen = {k.split("/")[0] for k, c in mach["census"].items() if c and "/" in k}
        if mach["instances_with_machine"] and kinds_seen != set(A.KINDS):
            raise MachineryError(f"atom-graph machine: decision kinds exercised {sorted(kinds_seen)} != {A.KINDS}")
    v.coverage = {"states": states + mach["mc_states"] + mach["tree_nodes_explained"], "transitions": states + mach["mc_states"],
                  "traces_validated_against_impl": n_mols, "molecules_validated": n_mols, "choice_paths": n_paths,
                  "instances": len(insts), "samples": samples, "atom_graph_machine": mach}
    if mach["divergences_not_c18"] or mach["behaviour_mismatches"]:
        v.notes.append("the implementation does not follow spec/AtomGenMachine.tla step by step on some instance (decisions, probabilities or built graph differ) - "
                       "not a clause of C18: C18 is judged on the molecules it built; see coverage.atom_graph_machine")
    v.assumptions = ["molecules started from one of several end groups have no start node and are outside C18 (the statement's precondition)",
                     "residue instances are the blocks of atoms in creation order", "scipy's failures of the Schulz-Zimm quantile search are C11's matter and skipped here"]
    return v.finish()
