"""Molecule.gen_mirror against spec/Mirror.tla.

TLC checks the theorems of the operator over every element sequence of a small alphabet (MirrorMC) and evaluates Mirror on
the element sequences of the instance library (one run); every result is compared element by element with the object the
library returns.  Also checked on the implementation: the mirror of the mirror prints like the original, the original is
untouched by the call (the mirror is a copy, not a view), a molecule of fewer than two elements has no mirror.
Nothing here is a clause of a listed property: differences are reported as divergences in the evidence of C16 (whose
graph is also asked of mirrored molecules), not as violations.
"""
import os

from . import common
from .common import Scratch, run_tlc, tla, MachineryError
from .gast import Token, instance_constants, weight_scale

TERMS = [{"sym": "", "id": -1, "ord": 1}, {"sym": "<", "id": -1, "ord": 1}, {"sym": "$", "id": 1, "ord": 2}]


def theorems(maxlen=4, timeout=600):
    with Scratch("mirrormc") as d:
        with open(os.path.join(d, "MC.tla"), "w") as f:
            f.write("---- MODULE MC ----\nEXTENDS MirrorMC\nMCTerms == {" + ", ".join(tla(t) for t in TERMS) + "}\n====\n")
        cfg = os.path.join(d, "MC.cfg")
        with open(cfg, "w") as f:
            f.write(f"SPECIFICATION Spec\nCONSTANTS\n MaxLen = {maxlen}\n Terms <- MCTerms\nCHECK_DEADLOCK FALSE\n" + "".join(f"INVARIANT T{i}\n" for i in range(1, 7)))
        r = run_tlc(d, "MC", cfg=cfg, workers=4, timeout=timeout, xmx="3g")
    if not r.ok:
        print(r.tail(25))
        raise MachineryError("MirrorMC: " + str(r.invariant_violated() or "TLC failed"))
    return r


def spec_mirrors(mols, timeout=600):
    """Mirror(Elems) of every instance, evaluated by TLC; returns a list of element lists (or None: no mirror)"""
    allelems = [instance_constants(m)[0] for m in mols]
    with Scratch("mirrorev") as d:
        with open(os.path.join(d, "MC.tla"), "w") as f:
            f.write("---- MODULE MC ----\nEXTENDS Mirror, TLC, Json\nVARIABLE x\n")
            f.write("MCAll == " + tla(allelems) + "\n")
            f.write('Out == [i \\in 1..Len(MCAll) |-> [inst |-> i, has |-> HasMirror(MCAll[i]), mirror |-> IF HasMirror(MCAll[i]) THEN Mirror(MCAll[i]) ELSE <<>>,\n'
                    '          involution |-> Involution(MCAll[i]) /\\ PositionWise(MCAll[i]) /\\ BoundariesKept(MCAll[i])]]\n')
            f.write('Init == x = 0 /\\ \\A i \\in 1..Len(MCAll) : PrintT(ToJson(Out[i]))\nNext == UNCHANGED x\nSpec == Init /\\ [][Next]_x\n====\n')
        cfg = os.path.join(d, "MC.cfg")
        with open(cfg, "w") as f:
            f.write("SPECIFICATION Spec\nCHECK_DEADLOCK FALSE\n")
        r = run_tlc(d, "MC", cfg=cfg, workers=1, timeout=timeout, xmx="3g")
    if not r.ok:
        print(r.tail(25))
        raise MachineryError("TLC failed evaluating Mirror on the instances")
    out = {}
    for rec in r.printed:
        if isinstance(rec, dict) and "inst" in rec:
            if not rec["involution"]:
                raise MachineryError(f"Mirror theorems fail on instance {rec['inst']}")
            out[rec["inst"]] = rec["mirror"] if rec["has"] else None
    if len(out) != len(mols):
        raise MachineryError(f"Mirror: {len(out)} results for {len(mols)} instances")
    return [out[i + 1] for i in range(len(mols))], r


def _bd(bd, scale):
    tr = [] if bd.transitions is None else [float(x) * scale for x in bd.transitions]
    return (bd.descriptor, -1 if bd.descriptor_id == "" else int(bd.descriptor_id), round(float(bd.weight) * scale, 6), [round(t, 6) for t in tr])


def _rec(r):
    return (r["sym"], int(r["id"]), round(float(r["w"]), 6), [round(float(t), 6) for t in r["tr"]])


def project_impl(g, molobj, scale):
    """element sequence of a library molecule in the vocabulary of the specification (tokens by their printed text)"""
    from gbigsmiles.stochastic import Stochastic
    out = []
    for e in molobj.elements:
        if isinstance(e, Stochastic):
            out.append({"kind": "sto", "tok": None, "left": _bd(e.left_terminal, scale), "right": _bd(e.right_terminal, scale),
                        "rep": [t.generate_string(True) for t in e.repeat_tokens], "end": [t.generate_string(True) for t in e.end_tokens]})
        else:
            out.append({"kind": "tok", "tok": e.generate_string(True), "left": None, "right": None, "rep": [], "end": []})
    return out


def project_spec(elems, toktext):
    out = []
    for e in elems:
        if e["kind"] == "sto":
            out.append({"kind": "sto", "tok": None, "left": _rec(e["left"]), "right": _rec(e["right"]),
                        "rep": [toktext[i - 1] for i in e["rep"]], "end": [toktext[i - 1] for i in e["end"]]})
        else:
            out.append({"kind": "tok", "tok": toktext[e["tok"] - 1], "left": None, "right": None, "rep": [], "end": []})
    return out


def run(g, mols):
    """returns (divergences, coverage)"""
    th = theorems()
    mols = [m for m in mols]
    spec, r = spec_mirrors(mols)
    div = []
    n_cmp = n_none = 0
    for m, sm in zip(mols, spec):
        text = m.text()
        scale = weight_scale(m)
        try:
            obj = g.Molecule(text)
        except Exception:
            continue
        before = obj.generate_string(True)
        toktext_impl = []
        from gbigsmiles.stochastic import Stochastic
        for e in obj.elements:
            if isinstance(e, Stochastic):
                toktext_impl += [t.generate_string(True) for t in e.repeat_tokens] + [t.generate_string(True) for t in e.end_tokens]
            else:
                toktext_impl.append(e.generate_string(True))
        if len(toktext_impl) != len(m.tokens()):
            continue          # parsing is C02's matter
        try:
            mir = obj.gen_mirror()
        except Exception as exc:
            div.append(f"{text}: gen_mirror raises {type(exc).__name__}: {str(exc)[:80]}")
            continue
        if sm is None:
            n_none += 1
            if mir is not None:
                div.append(f"{text}: a molecule of fewer than two elements has a mirror")
            continue
        if mir is None:
            div.append(f"{text}: no mirror for a molecule of {len(m.elems)} elements")
            continue
        n_cmp += 1
        got = project_impl(g, mir, scale)
        exp = project_spec(sm, toktext_impl)
        if got != exp:
            k = next((i for i, (a, b) in enumerate(zip(got, exp)) if a != b), min(len(got), len(exp)))
            div.append(f"{text}: element {k + 1} of the mirror is {got[k] if k < len(got) else None}, Mirror.tla gives {exp[k] if k < len(exp) else None}")
        # the original is untouched; no element object is shared
        if obj.generate_string(True) != before:
            div.append(f"{text}: gen_mirror changed the original: {before} -> {obj.generate_string(True)}")
        if {id(e) for e in obj._elements} & {id(e) for e in mir._elements}:          # (.elements hands out copies)
            div.append(f"{text}: the mirror shares element objects with the original")
        # involution, on the printed form
        try:
            back = mir.gen_mirror()
            if back is None or back.generate_string(True) != before:
                div.append(f"{text}: the mirror of the mirror prints {None if back is None else back.generate_string(True)!r}, the original {before!r}")
        except Exception as exc:
            div.append(f"{text}: gen_mirror of the mirror raises {type(exc).__name__}")
    return div, {"module": "spec/Mirror.tla", "theorem_states": th.distinct, "instances_evaluated_by_TLC": len(mols), "mirrors_compared": n_cmp,
                 "molecules_without_mirror": n_none, "divergences": len(div)}
