"""C13 - ensemble generation yields complete member molecules up to the system mass."""
import random

import numpy as np

from . import common, ensemble as E, explore as X, instances as I
from .common import Verdict, MachineryError
from .gast import M, S

C13_CLAUSES = ("pick-candidates", "pick-expected", "member-", "stops-before-system-mass", "continues-after-end", "yields-member-not-fully-generated",
               "error-not-expected", "model-StopsExactly", "member-yielded-before-complete", "member-expected", "generation-error-expected",
               "unknown-observation", "pick-zero-probability-option-taken")


def systems(tier):
    g = I.g
    two_m = repr(2 * 12.011)
    out = [
        E.SystemSpec([(M("C"), 100)], 40.0, "one-fixed"),
        E.SystemSpec([(M("C"), 100)], float(two_m), "one-fixed-exact-boundary"),
        # the system mass one mDa above two members (a relative tolerance of 1e-5 would call that "reached")
        E.SystemSpec([(M("CCCCCCCCCC"), 100)], 240.221, "one-fixed-hair-above-two-members"),
        E.SystemSpec([(M("C"), 50), (M("CCCCCCCCCC"), 50)], 260.0, "methane-decane"),
        E.SystemSpec([(M("CCCO"), 20), (M("CC(C)O"), 30), (M("CCOC"), 50)], 170.0, "isomers"),
        E.SystemSpec([(M("C1CCOC1"), 10), (M("C[>]", S("[>]", ["[<]CC[>]"], [], "[<]", g(40)), "[<]O"), 90)], 150.0, "solvent-polymer"),
        E.SystemSpec([(M(S("[]", ["[<]CC[>]", "[<]CO[>]"], ["[<][H]", "[>]F"], "[]", g(30))), 60), (M("CCN"), 40)], 130.0, "endstart-polymer"),
        E.SystemSpec([(M("C[>]", S("[>]", ["[<]CC[>]"], [], "[<]", g(25)), S("[>]", ["[<]CO[>]", "[<]CS[>]"], [], "[<]", g(25)), "[<]F"), 100)], 200.0, "diblock-only"),
        E.SystemSpec([(M("CC"), 0), (M("CCC"), 30), (M("CCCC"), 70)], 120.0, "zero-percent-first"),
        # residue numbers run over the whole system: the second component's suffix is the 30th token
        E.SystemSpec([(M("C1CCOC1"), 10), (M("C[>]", S("[>]", ["[<]CC[>]"], ["[<]" + "C" * k + "F" for k in range(1, 27)], "[<]", g(40)), "[<]O"), 90)], 150.0, "solvent-polymer-30-tokens"),
    ]
    # a component that cannot be fully generated: the iteration must refuse, never yield it
    out.append(E.SystemSpec([(M("CC"), 50), (M("C[>]", S("[>]", ["[<]CC[>]"], [], "[<]", g(30))), 50)], 100.0, "open-member"))
    if tier == "thorough":
        out += [E.SystemSpec([(M("C"), 25), (M("CC"), 25), (M("CCC"), 25), (M("CCCC"), 25)], 110.0, "four-fixed"),
                E.SystemSpec([(M("N[>]", S("[>]", ["[<|3|]CC[>]", "[<]CO[>]"], [], "[<]", g(60)), "[<]F"), 70), (M("O"), 30)], 260.0, "copolymer-water")]
    return out


def attribute(failed):
    return any(any(c.startswith(x) for x in C13_CLAUSES) for c in failed)


def run(tier):
    g = common.import_repo()
    X.Tap.install(g)
    v = Verdict("C13", tier)
    rnd = random.Random(common.seed() + 13)
    tot_nodes = tot_paths = tot_states = 0
    replayed = 0
    samples = []
    budget = dict(max_nodes=2500, max_seconds=20) if tier == "quick" else dict(max_nodes=30000, max_seconds=200)
    for spec in systems(tier):
        text = spec.text()
        try:
            sysobj = g.System(text)
        except Exception as exc:
            raise MachineryError(f"System({text!r}) does not parse: {exc}")
        if not sysobj.generable:
            raise MachineryError(f"System({text!r}) is not generable")
        for mode in ("iterate", "single"):
            call = E.iterate_call if mode == "iterate" else E.single_call
            tree = X.explore(sysobj, call=call, projector=E.stop_projector, **budget)
            # recorded random streams on top (longer ensembles)
            if mode == "iterate":
                big = g.System(text.rsplit(".|", 1)[0] + f".|{spec.comps[-1][1] * spec.S * 0.01 * 6}|") if False else None
            res = E.validate(spec, tree, single=(mode == "single"), tag="c13")
            if res["error"]:
                print(res["error"])
                raise MachineryError(f"TLC failed on the ensemble tree of {text}")
            tot_nodes += res["reached"]
            tot_paths += tree.paths
            tot_states += res["states"]
            if len(samples) < 5:
                samples.append({"system": text, "mode": mode, "tree_nodes": res["nodes"], "paths": tree.paths,
                                "leaves": res["leaves"][:2]})
            for d in res["diags"]:
                if attribute(d["failed"]):
                    node = tree.nodes[d["node"] - 1]
                    v.violation(f"C13:{'+'.join(sorted(x.split(':')[0] for x in d['failed'] if any(x.startswith(y) for y in C13_CLAUSES)))}@{spec.name}:{mode}",
                                f"system {text} ({mode}): node {d['node']}: {d['failed']}; model pc={d.get('pc')} accumulated={d.get('acc')} members={d.get('n')}; "
                                f"event={ {k: node['ev'].get(k) for k in ('kind', 'a', 'p', 'k', 'smiles', 'mass', 'full')} } observation={node['obs']}",
                                {"system": text, "mode": mode})
            if res["reached"] != res["nodes"] and not res["diags"]:
                raise MachineryError(f"{text}: {res['nodes'] - res['reached']} tree nodes not reached without a diagnostic")
        # specification -> code: TLC generates the schedules of the ensemble machine (component picks, decisions and targets of every member),
        # System.generator is stepped through each, EnsembleTrace judges what it did
        behs, rb = E.export_behaviours(spec, timeout=120 if tier == "quick" else 600)
        if tier == "thorough":
            deep, _ = E.export_behaviours(spec, timeout=600, simulate=(100, 600), tag="ensmchsim")
            behs += deep[:200]
        if not behs:
            raise MachineryError(f"TLC exported no behaviour of EnsembleMCH for {text}: " + rb.tail(5))
        cap = 120 if tier == "quick" else 1500
        if len(behs) > cap:
            step = len(behs) / cap
            behs = [behs[int(i * step)] for i in range(cap)]
        rtree = E.replay_behaviours(sysobj, behs)
        res = E.validate(spec, rtree, single=False, tag="c13r")
        if res["error"]:
            print(res["error"])
            raise MachineryError(f"TLC failed on the replayed ensemble behaviours of {text}")
        replayed += len(behs)
        tot_nodes += res["reached"]
        tot_states += res["states"]
        for d in res["diags"]:
            if attribute(d["failed"]):
                node = rtree.nodes[d["node"] - 1]
                v.violation(f"C13:{'+'.join(sorted(x.split(':')[0] for x in d['failed'] if any(x.startswith(y) for y in C13_CLAUSES)))}@{spec.name}:replay",
                            f"system {text} (behaviour of the specification replayed into System.generator): node {d['node']}: {d['failed']}; model pc={d.get('pc')} "
                            f"accumulated={d.get('acc')} members={d.get('n')}; event={ {k: node['ev'].get(k) for k in ('kind', 'a', 'p', 'k', 'smiles', 'mass', 'full')} } "
                            f"observation={node['obs']}", {"system": text, "mode": "replay"})
    # design level: every behaviour of the ensemble machine for the small systems (EnsembleMC)
    mc_states = 0
    mc_runs = []
    for spec in systems(tier)[: (6 if tier == "quick" else 11)]:
        if spec.name == "open-member":
            continue            # its machine ends in "error" by design (a member that cannot be completed)
        r = E.model_check(spec)
        if not r.ok:
            inv = r.invariant_violated()
            if inv:
                v.violation(f"C13:model:{inv}@{spec.name}", f"the ensemble specification violates {inv} on {spec.text()}\n{r.tail(12)}", {"system": spec.text()})
                continue
            print(r.tail(30))
            raise MachineryError(f"TLC failed on EnsembleMC for {spec.name}")
        mc_states += r.distinct
        mc_runs.append({"system": spec.text(), "distinct_states": r.distinct, "depth": r.depth})
    n_proved, _, t_pr = common.run_tlapm("FirstCrossingProofs")
    mc_runs.append({"unbounded_proof": "spec/proofs/FirstCrossingProofs.tla", "tool": "tlapm (TLAPS)", "obligations_proved": n_proved, "seconds": round(t_pr, 2),
                    "theorem": "Spec => []StoppedAtFirstCrossing (Strict = FALSE is C13's stop rule)",
                    "bound_to_the_machine_by": "PROPERTY ImplementsFirstCrossing of spec/EnsembleRefinesFC.tla, checked by TLC on every system above"})
    t_apa = common.apalache_first_crossing(strict=False)
    mc_runs.append({"inductive_invariant_symbolic": "spec/apalache/FirstCrossingApa.tla", "tool": "apalache-mc 0.58 (z3)", "seconds": t_apa,
                    "checked": "Init => IndInv; IndInv /\\ Next => IndInv' for Strict = FALSE, all integer amounts and limits, history of up to 4 records"})
    # systems that are not generable must refuse on both entry points
    refusals = 0
    for text, smw in (("CCO.|30%|CCC.|70%|", None), ("CCO.|30%|CCC", None), ("CC.|40%|O{[$][$]CC[$][$]}N", 150), ("CCO.|10%|CCC.|100|CCCC.|100|", None),
                      ("O{[$][$]CC[$][$]}N.|100|", None)):
        s = g.System(text, smw)
        refusals += 1
        if s.generable:
            # not generable by construction: under-determined masses, or a stochastic object without distribution
            v.violation("C13:non-generable-system-reported-generable", f"System({text!r}, {smw}) cannot be generated (under-determined or an object without "
                        f"distribution) but reports generable=True", {"system": text, "system_molweight": smw})
        for name, fn in (("generator", lambda: next(iter(type(s).generator.fget(s, np.random.default_rng(seed))))),
                         ("generate", lambda: s.generate(rng=np.random.default_rng(seed)))):
            for seed in range(6):
                try:
                    m = fn()
                    v.violation(f"C13:non-generable-system-generates:{name}", f"System({text!r}, {smw}) is not generable but {name} returned {getattr(m, 'smiles', m)!r}",
                                {"system": text, "system_molweight": smw})
                    break
                except Exception:
                    pass
    v.coverage = {"states": tot_states + mc_states, "transitions": tot_states + mc_states, "model_checking": {"distinct_states": mc_states, "runs": mc_runs,
                  "properties": ["IStop", "IAccounted", "OnlyCompleteMembers", "AccumulatesMemberMass", "Termination (WF)"]}, "traces_validated_against_impl": tot_paths + replayed,
                  "behaviours_generated_by_TLC_and_replayed_into_System_generator": replayed,
                  "tree_nodes_validated": tot_nodes, "systems": len(systems(tier)), "non_generable_systems_tried": refusals, "samples": samples}
    v.assumptions = ["System.generator is a property whose generator argument cannot be passed normally: the harness calls type(system).generator.fget(system, rng)",
                     "a member is 'an instance of a declared component' iff its recorded generation is a behaviour of that component's generation machine and the yielded molecule equals the machine's result"]
    return v.finish()
