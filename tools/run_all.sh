#!/bin/sh
# tools/run_all.sh <seed> [tier]: every check once under VERIF_SEED=<seed>, evidence and replays in a scratch directory (never /verif/evidence);
# prints one summary line per check. Used to look for alarms that depend on the seed.
seed="$1"; tier="${2:-quick}"
d=$(mktemp -d /tmp/runall_XXXXXX)
mkdir -p "$d/ev" "$d/rp"
cd "$(dirname "$0")/.."
for p in C01 C02 C03 C04 C05 C06 C07 C08 C09 C10 C11 C12 C13 C14 C15 C16 C17 C18 C19 C20; do
  VERIF_SEED=$seed VERIF_EVIDENCE_DIR="$d/ev" VERIF_REPLAYS_DIR="$d/rp" ./check $p --tier $tier > "$d/$p.log" 2>&1; rc=$?
  echo "seed=$seed $p exit=$rc $(grep -E 'HELD|VIOLATED|MACHINERY' "$d/$p.log" | tail -1 | cut -c1-160)"
  if [ $rc -ne 0 ]; then grep -E "^VIOLATION|^  key=|MACHINERY" "$d/$p.log" | cut -c1-600 | head -8; fi
done
rm -rf "$d"
