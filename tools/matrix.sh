#!/bin/sh
# tools/matrix.sh [names...]: run every seeded change against the quick check of its property (and of the properties in meta.also_run)
# in a scratch worktree; appends to seeded/RESULTS.tsv
cd /verif
names="$@"; [ -z "$names" ] && names=$(ls seeded | grep -v RESULTS)
for n in $names; do
  props=$(/venv/bin/python -c "import json;m=json.load(open('seeded/$n/meta.json'));print(' '.join([m['property']]+m.get('also_run',[])))")
  for p in $props; do
    out=$(tools/try_mutant.sh seeded/$n/patch.diff $p quick 2>&1 | grep -E "^exit=|HELD|VIOLATED|MACHINERY" | tr '\n' ' ')
    echo "$(date +%H:%M) $n $p $out" | tee -a seeded/RESULTS.tsv
  done
done
