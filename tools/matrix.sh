#!/bin/sh
# tools/matrix.sh [names...]: run every seeded change against the quick check of its property (scratch worktree), append to seeded/RESULTS.tsv
cd /verif
names="$@"; [ -z "$names" ] && names=$(ls seeded | grep -v RESULTS)
for n in $names; do
  p=$(/venv/bin/python -c "import json;print(json.load(open('seeded/$n/meta.json'))['property'])")
  out=$(tools/try_mutant.sh seeded/$n/patch.diff $p quick 2>&1 | grep -E "^exit=|HELD|VIOLATED|MACHINERY" | tr '\n' ' ')
  echo "$(date +%H:%M) $n $p $out" | tee -a seeded/RESULTS.tsv
done
