#!/bin/sh
# tools/mkwt.sh <dir>: scratch worktree of /repo (HEAD) outside /repo and /verif, importable with PYTHONPATH=<dir>/src
set -e
d="$1"
git -C /repo worktree add --detach "$d" HEAD >/dev/null 2>&1
cp /repo/src/gbigsmiles/_version.py "$d/src/gbigsmiles/_version.py"
cat > "$d/run_tests.sh" <<EOT
#!/bin/sh
cd "$d" && PYTHONPATH="$d/src" /venv/bin/python -m pytest -q -p no:cacheprovider --timeout=900 "\$@"
EOT
chmod +x "$d/run_tests.sh"
echo "$d"
