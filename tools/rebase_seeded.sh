#!/bin/sh
# tools/rebase_seeded.sh: make every seeded/*/patch.diff apply to /repo's current HEAD (3-way), keeping the original as patch.orig.diff
cd /verif
for n in $(ls seeded | grep -v RESULTS); do
  d=/tmp/rebase_$n
  tools/mkwt.sh $d >/dev/null
  if git -C $d apply --check /verif/seeded/$n/patch.diff 2>/dev/null; then echo "$n applies"; 
  elif (cd $d && git apply -3 /verif/seeded/$n/patch.diff 2>/dev/null); then
     [ -f seeded/$n/patch.orig.diff ] || cp seeded/$n/patch.diff seeded/$n/patch.orig.diff
     git -C $d diff HEAD > seeded/$n/patch.diff; echo "$n REBASED"
  else echo "$n CONFLICT"; fi
  tools/rmwt.sh $d
done
