#!/bin/sh
# tools/rmwt.sh <dir>: remove a scratch worktree and its build output
git -C /repo worktree remove --force "$1" 2>/dev/null || rm -rf "$1"
git -C /repo worktree prune
