#!/bin/sh
# tools/confirm_mutant.sh <worktree> <i> : confirm a seeded change independently in a fresh scratch worktree.
# Writes <worktree>/confirm<i>.log with: demo exit on unchanged tree, demo exit with change, test-suite summary with change.
wt="$1"; i="$2"
c="/tmp/confirm_$(basename $wt)_$i"
/verif/tools/mkwt.sh "$c" >/dev/null
cp "$wt/mutant$i.patch" "$wt/demo$i.py" "$c/"
log="$wt/confirm$i.log"
: > "$log"
cd "$c"
PYTHONPATH="$c/src" timeout 1800 /venv/bin/python demo$i.py >/dev/null 2>&1; echo "demo_unchanged_exit=$?" >> "$log"
if git apply "mutant$i.patch"; then echo "apply=ok" >> "$log"; else echo "apply=FAILED" >> "$log"; fi
PYTHONPATH="$c/src" timeout 1800 /venv/bin/python demo$i.py >/dev/null 2>&1; echo "demo_changed_exit=$?" >> "$log"
PYTHONPATH="$c/src" /venv/bin/python -m pytest -q -p no:cacheprovider --timeout=900 2>&1 | grep -E "passed|failed|FAILED|ERROR" | tail -8 >> "$log"
cd /
/verif/tools/rmwt.sh "$c"
echo "done" >> "$log"
