#!/bin/sh
# tools/try_mutant.sh <patch> <ID> [tier]: apply a seeded change to /repo, run one check, undo it straight afterwards.
patch="$1"; id="$2"; tier="${3:-quick}"
cd /verif
if ! git -C /repo diff --quiet; then echo "/repo is dirty"; exit 3; fi
git -C /repo apply "$patch" || { echo "patch does not apply"; exit 3; }
./check "$id" --tier "$tier" > /tmp/try_$$.log 2>&1; rc=$?
git -C /repo checkout -- .
grep -E "^VIOLATION|^KNOWN-FINDING|HELD|VIOLATED|MACHINERY" /tmp/try_$$.log | cut -c1-300 | head -12
grep -E "^  key=" /tmp/try_$$.log | cut -c1-400 | head -4
rm -f /tmp/try_$$.log
echo "exit=$rc"
exit $rc
