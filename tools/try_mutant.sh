#!/bin/sh
# tools/try_mutant.sh <patch> <ID> [tier]: run one check against a scratch worktree of /repo with a seeded change applied
# (VERIF_REPO points the harness at the worktree; evidence and replays go to a scratch directory). /repo itself is untouched.
patch="$(readlink -f "$1")"; id="$2"; tier="${3:-quick}"
wt="/tmp/trial_$$"
/verif/tools/mkwt.sh "$wt" >/dev/null || exit 3
git -C "$wt" apply "$patch" || { echo "patch does not apply"; /verif/tools/rmwt.sh "$wt"; exit 3; }
mkdir -p "$wt/.ev" "$wt/.rp"
cd /verif
VERIF_REPO="$wt" VERIF_EVIDENCE_DIR="$wt/.ev" VERIF_REPLAYS_DIR="$wt/.rp" ./check "$id" --tier "$tier" > "$wt/.log" 2>&1; rc=$?
grep -E "^VIOLATION|^KNOWN-FINDING|HELD|VIOLATED|MACHINERY" "$wt/.log" | cut -c1-300 | head -8
grep -E "^  key=" "$wt/.log" | cut -c1-500 | head -3
/verif/tools/rmwt.sh "$wt"
echo "exit=$rc"
exit $rc
