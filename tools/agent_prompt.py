#!/venv/bin/python
"""tools/agent_prompt.py <ID> <worktree>: prints the prompt given to a mutation sub-agent (property text only, nothing from /verif)."""
import json, sys
pid, wt = sys.argv[1], sys.argv[2]
# optional: "fileA;fileB" - the file each of the two changes has to be made in (files the property is anchored in), to spread the changes over the code base
where = sys.argv[3].split(";") if len(sys.argv) > 3 and sys.argv[3] else None
# optional: the KIND of trigger both changes must need ("history" / "boundary"), to spread the changes over kinds of slips
kind = sys.argv[4] if len(sys.argv) > 4 else None
KINDS = {"history": "Both changes must be of the kind that needs HISTORY to manifest: state shared between objects or calls (caches, class-level or module-level data, aliased arrays or lists, a missed copy), so that the first use in a fresh process is right and only a later use - after other objects were created, other strings parsed, other calls made - is wrong.",
         "boundary": "Both changes must be of the kind that needs a BOUNDARY or unusual-but-legal VALUE to manifest: zero, exactly equal values, very small / very large numbers, an unusual number format, the first or last position of a list, a count of exactly one, sizes just past a limit - ordinary mid-range inputs must behave exactly as before."}
p = [json.loads(l) for l in open('/verif/properties.jsonl') if json.loads(l)['id'] == pid][0]
print(f"""You are helping to evaluate a verification framework by writing realistic buggy variants ("seeded changes") of an open-source Python library. Work ONLY inside the scratch git worktree {wt} (a checkout of the library G-BigSMILES: Python parser and stochastic generator for a polymer line notation; sources in {wt}/src/gbigsmiles, docs in {wt}/README.md and {wt}/SI.md, tests in {wt}/tests). Do NOT read or touch /repo or /verif, do not use git commit, and do NOT use git stash (the stash is shared with other worktrees of the same repository; save a change with `git diff > x.patch`, undo it with `git checkout -- .`, re-apply it with `git apply x.patch`).

How to run things:
- Python is /venv/bin/python. To import the worktree's code (and not the installed copy) ALWAYS set PYTHONPATH={wt}/src, e.g.  cd {wt} && PYTHONPATH={wt}/src /venv/bin/python demo.py   (check gbigsmiles.__file__ points into {wt}).
- The existing test suite: {wt}/run_tests.sh  (about 10 minutes; you can pass pytest args, e.g. ./run_tests.sh tests/test_bond.py). On the UNCHANGED tree tests/test_distribution.py::test_flory_schulz always fails and test_schulz_zimm is flaky; ignore those two. Everything else passes (61 tests).
- No network. Other agents are using the machine: do not start more than one test-suite run at a time.

The property that the library is supposed to satisfy (property {pid}: {p['title']}):

  STATEMENT: {p['statement']}

  QUANTIFIED OVER: {p['quantifier']['text']}

  Code it is anchored in: {', '.join(p['anchors']['files'])}

Your task: produce TWO different, independent changes to the library source (src/gbigsmiles only), each of which
  (a) BREAKS this property (some clause of the statement becomes false for some input / sequence of random choices / history),
  (b) still imports, and the existing test suite still passes exactly as on the unchanged tree (same tests pass),
  (c) is realistic - the kind of slip a maintainer could make in a refactoring, optimisation or feature commit (wrong index, off-by-one, >= for >, missed deep copy, cache keyed wrongly, swapped arguments, removed or weakened guard, a condition that is right for the common case only ...), not sabotage that prints or special-cases an input,
  (d) needs something SPECIFIC to manifest: a particular sequence of random choices, an unusual but legal input shape (branching, several end groups, zero or unequal weights, ids, a particular distribution parameter region, a particular order of API calls, two code sites that each look fine alone) - NOT something that ordinary use or the first call would expose at once. Prefer subtle ones.
The two changes should touch different mechanisms / clauses of the property.
{(KINDS[kind] + chr(10)) if kind else ""}{("Change 1 has to be made in src/gbigsmiles/" + where[0] + " and change 2 in src/gbigsmiles/" + where[1] + " (other files may be touched too if the change needs it, but the slip itself sits in the named file). If you find after a serious attempt that no such change can break the property and still pass the suite, say so and use another file the property is anchored in.") if where else ""}

For each change i in (1, 2) deliver, in {wt}:
  - mutant<i>.patch : output of `git diff` for that change alone (relative to the unchanged tree; apply-able with `git apply`),
  - demo<i>.py : a standalone script (uses only the library, numpy, rdkit, the standard library) that exits 0 on the unchanged tree and exits non-zero on the changed tree, printing what went wrong. It must be deterministic (fixed seeds / scripted random generator).
  - (no report file is needed: put the description - clause broken, what it needs to manifest, commands you ran - in your final answer)
You must verify all of it yourself: demo passes without the change and fails with it; the full test suite passes with the change applied (run it, one change at a time). Finish with the worktree's tracked files UNCHANGED (git checkout -- . after saving the patches) so only the untracked deliverables remain.

In your final answer, summarise for each change: file/line touched, clause broken, trigger condition, and test-suite result.""")
