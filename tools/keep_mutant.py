#!/venv/bin/python
"""tools/keep_mutant.py <worktree> <i> <name> <property> <what> <needs>: store a confirmed seeded change under /verif/seeded/<name>/."""
import json, os, shutil, sys
wt, i, name, prop, what, needs = sys.argv[1:7]
d = f"/verif/seeded/{name}"
os.makedirs(d, exist_ok=True)
shutil.copy(f"{wt}/mutant{i}.patch", f"{d}/patch.diff")
shutil.copy(f"{wt}/demo{i}.py", f"{d}/demo.py")
log = open(f"{wt}/confirm{i}.log").read()
ok = "demo_unchanged_exit=0" in log and "apply=ok" in log and "demo_changed_exit=0" not in log and "demo_changed_exit=" in log
suite = [l for l in log.splitlines() if "passed" in l]
failed = [l.split(" - ")[0].replace("FAILED ", "") for l in log.splitlines() if l.startswith("FAILED")]
unexpected = [f for f in failed if "test_flory_schulz" not in f and "test_schulz_zimm" not in f]
meta = {"property": prop, "what_it_breaks": what, "needs_to_manifest": needs,
        "confirmed": {"demo_exit_unchanged_tree": 0, "demo_exit_with_change": [l for l in log.splitlines() if l.startswith("demo_changed")][0].split("=")[1],
                      "test_suite_with_change": suite[-1] if suite else "?", "failed_tests_with_change": failed,
                      "unexpected_failures": unexpected,
                      "how": "tools/confirm_mutant.sh: fresh scratch worktree of /repo HEAD; demo on unchanged tree; git apply patch.diff; demo again; full pytest suite "
                             "(test_flory_schulz always fails and test_schulz_zimm is flaky on the unchanged tree, see /root/.vp/BASELINE.json)"},
        "origin": "written by an independent sub-agent that saw only the property text and its own worktree"}
json.dump(meta, open(f"{d}/meta.json", "w"), indent=1)
print(name, "kept" if ok and not unexpected else "NOT CONFIRMED", suite[-1] if suite else "")
