#!/bin/sh
# Build step of the framework: nothing is compiled; verify that the tools are present and the
# specification parses. Everything runs offline.
set -e
cd "$(dirname "$0")"
/venv/bin/python -c "import sys; sys.path.insert(0,'/repo/src'); import gbigsmiles, numpy, scipy, rdkit, networkx" 
for m in spec/*.tla; do
  n=$(basename "$m" .tla)
  (cd spec && java -cp /opt/veriftools/tla/tla2tools.jar:/opt/veriftools/tla/CommunityModules-deps.jar tla2sany.SANY "$n.tla" >/tmp/sany_$n.log 2>&1) || { cat /tmp/sany_$n.log; echo "SANY failed on $n"; exit 1; }
  if grep -q "error" /tmp/sany_$n.log; then cat /tmp/sany_$n.log; echo "SANY errors in $n"; exit 1; fi
  rm -f /tmp/sany_$n.log
done
# proof modules (checked by tlapm inside the checks that use them): they parse against the proof system's standard modules
for m in spec/proofs/*.tla; do
  n=$(basename "$m" .tla)
  (cd spec/proofs && java -DTLA-Library=/verif/spec:/opt/veriftools/tlapm/lib/tlapm/stdlib -cp /opt/veriftools/tla/tla2tools.jar:/opt/veriftools/tla/CommunityModules-deps.jar tla2sany.SANY "$n.tla" >/tmp/sany_$n.log 2>&1) || { cat /tmp/sany_$n.log; echo "SANY failed on $n"; exit 1; }
  rm -f /tmp/sany_$n.log
done
command -v tlapm >/dev/null || { echo "tlapm missing"; exit 1; }
# spec/apalache/*.tla are wrappers for the symbolic checker (they EXTEND its Apalache module): parsed by apalache-mc inside the checks
command -v apalache-mc >/dev/null || { echo "apalache-mc missing"; exit 1; }
echo "setup ok"
